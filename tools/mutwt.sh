#!/bin/bash
# tools/mutwt.sh <file-in-repo> <sed-expr> <check-id> [check args...]: apply a one-off mutation to the scratch worktree
# /tmp/seedwt (never /repo), run a check against it with VERIF_REPO, revert
f=$1; e=$2; id=$3; shift 3
R=/tmp/seedwt
[ -d $R ] || git -C /repo worktree add -q --detach $R HEAD
cd $R && git checkout -q -- . && sed -i "$e" "$f" && git diff --stat | head -3
cd /verif && VERIF_REPO=$R ./check $id quick --no-evidence "$@" 2>&1 | tail -4
cd $R && git checkout -q -- .
