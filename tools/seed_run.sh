#!/bin/bash
# tools/seed_run.sh <dir under seeded/> [extra check args]: apply a seeded change, run the property's quick check, undo.
# By default the change is applied to a scratch worktree (/tmp/seedwt, VERIF_REPO points the checks at it) so that other
# work on /repo is not disturbed; with SEED_IN_REPO=1 it is applied to /repo itself, as the brief describes.
d=$1; shift
p=$(python3 -c "import json,sys; print(json.load(open('/verif/seeded/$d/meta.json'))['property'])")
R=/tmp/seedwt; [ -n "$SEED_IN_REPO" ] && R=/repo
[ -d $R ] || git -C /repo worktree add -q $R HEAD
cd $R && git checkout -q -- . && git apply /verif/seeded/$d/patch.diff || { echo "$d APPLY-FAILED"; exit 2; }
cd /verif && VERIF_REPO=$R ./check $p quick --no-evidence "$@" > /tmp/seedrun_$d.log 2>&1; rc=$?
cd $R && git checkout -q -- .
echo "$d property=$p exit=$rc $(grep -c '^VIOLATION' /tmp/seedrun_$d.log) violation lines; $(grep -A1 '^VIOLATION' /tmp/seedrun_$d.log | sed -n 2p | cut -c1-200)"
