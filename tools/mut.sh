#!/bin/bash
# tools/mut.sh <file-in-repo> <sed-expr> <check-id> [check args...]: apply a one-off mutation to /repo, run a check, revert
f=$1; e=$2; id=$3; shift 3
cd /repo && sed -i "$e" "$f" && git diff --stat | head -3
cd /verif && ./check $id quick --no-evidence "$@" 2>&1 | tail -4
cd /repo && git checkout -- . 
