#!/bin/bash
# run every claimed check's quick (or given tier) command in sequence, summarise
tier=${1:-quick}
cd /verif
for id in $(python3 -c "import json; print(' '.join(c['property_id'] for c in json.load(open('MANIFEST.json'))['checks']))"); do
  s=$(date +%s); ./check $id $tier > /tmp/runall_$id.log 2>&1; rc=$?; e=$(date +%s)
  echo "$id exit=$rc $((e-s))s $(tail -1 /tmp/runall_$id.log | cut -c1-170)"
done
