#!/bin/bash
# tools/seed_verify.sh <PROP> <mN>: confirm a seeded change in the agent's scratch worktree /tmp/wt_<PROP>:
#  demo passes on the clean tree, fails with the patch; the pinned test suite still has its 4577 passes with the patch.
P=$1; M=$2; WT=/tmp/wt_$P; S=$WT/seeded_out/$M
cd $WT || exit 2
git checkout -q -- . ; git status --short | grep -v seeded_out
touchc() { if grep -q "c/csimulator.c" $S/patch.diff; then /venv/bin/python setup.py build_ext --inplace >/dev/null 2>&1; fi; }
[ -f skoolkit/csimulator.cpython-312-x86_64-linux-gnu.so ] || /venv/bin/python setup.py build_ext --inplace >/dev/null 2>&1
cp $S/demo.py ./_demo.py
/venv/bin/python _demo.py >/dev/null 2>&1; clean=$?
git apply $S/patch.diff || { echo "APPLY FAILED"; exit 2; }
touchc
/venv/bin/python _demo.py > /tmp/_demo_out_$P.txt 2>&1; mut=$?
rm -f /tmp/_seed_junit_$P.xml
for try in 1 2 3 4; do   # the suite occasionally segfaults inside unittest.mock in this sandbox (also on the unmodified tree): retry
  /venv/bin/python -m pytest -ra -q -p no:cacheprovider --timeout=900 --continue-on-collection-errors --junitxml=/tmp/_seed_junit_$P.xml >/tmp/_seed_pytest_$P.log 2>&1
  [ -f /tmp/_seed_junit_$P.xml ] && break
done
P=$P /venv/bin/python - <<'PY'
import json, xml.etree.ElementTree as ET
b = json.load(open('/root/.vp/BASELINE.json')); stable = set(b['stable_pass'])
res = {}
for tc in ET.parse('/tmp/_seed_junit_%s.xml' % __import__('os').environ['P']).iter('testcase'):
    name = tc.get('classname') + '::' + tc.get('name')
    res[name] = 'fail' if any(c.tag in ('failure', 'error') for c in tc) else ('skip' if any(c.tag == 'skipped' for c in tc) else 'pass')
missing = [s for s in stable if res.get(s) != 'pass']
print('TESTS stable=%d not_passing=%d %s' % (len(stable), len(missing), missing[:3]))
PY
git checkout -q -- . ; touchc; rm -f _demo.py
echo "DEMO clean_exit=$clean mutated_exit=$mut :: $(tail -1 /tmp/_demo_out_$P.txt | cut -c1-160)"
