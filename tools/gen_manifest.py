#!/usr/bin/env python3
"""Regenerates MANIFEST.json from the table below (single source of truth for what is claimed)."""
import json, os
ROOT = os.path.dirname(os.path.dirname(os.path.abspath(__file__)))

TECH = 'bounded symbolic execution of the real code on z3 proxies (Engine A) + SMT verdict per path'
CLAIMED = {
    'C05': dict(
        text='Every dispatch-table slot of the real Python Simulator (thorough: and CMIOSimulator) is executed symbolically from an arbitrary '
             'machine state and shown, by one z3 query per path, to leave registers, documented flags, memory, PC/SP, IFF/IM/HALT, T and port events '
             'exactly as a reference Z80 model written from the Zilog/Young documents prescribes; every flag table is shown equal to the reference primitive for all indices. '
             'Bound: one instruction (one iteration of a repeating one) from any state satisfying the invariant.',
        note='Trusted: the reference model lib/z80ref.py and its listed emulator conventions; the proxy engine lib/symx.py; z3. Bits 5/3 of F are not compared. '
             'The C implementations are connected through C06, not here.',
        design='4 (C05), 2.1, 3.1', technique=TECH + '; oracle = reference Z80 model'),
    'C08': dict(
        text='Inductive step decided by z3: from any machine state satisfying the invariant (register ranges, byte-valued memory, paging relation) one execution of every real '
             'instruction closure, accept_interrupt, each of the five paging write_port implementations, and each Memory get/set/bank/out7ffd/copy operation is shown to stay in the '
             'invariant, leave every ROM cell unchanged, not decrease T, write exactly one cell of the mapped bank, and page exactly as the last accepted 0x7FFD write prescribes '
             '(port, value, previous 0x7FFD all symbolic). Histories of any length follow by induction, which subsumes the property\'s sequences of up to 3 port writes.',
        note='Python implementations only (C twins are reached through C06). T < 2^32 is a bound of the claim. Trusted: lib/symx.py, z3, the reading of "accepted write" as port & 0x8002 == 0 with bit 5 clear.',
        design='4 (C08)', technique=TECH + '; inductive invariant step'),
    'C19': dict(
        text='For every dispatch slot, on 48K and 128K, the real CMIOSimulator closure and the real plain Simulator closure are run from one symbolic state: all effects other than T and MEMPTR '
             'are shown equal; the (address, T-states) pattern the closure hands to contend() is shown equal cycle by cycle to the documented machine cycles (reference table keyed by an independent decoder); '
             'T_cmio = T_plain + the delay returned; where contend is skipped the wait pattern is shown to be 0 throughout the instruction. The real contend_48k/128k loop is shown equal to the reference fold of the '
             '6,5,4,3,2,1,0,0 pattern (>= 0, 0 when nothing is contended) for symbolic patterns/start times, io_contention_* to the four documented I/O cases, and the DELAYS tables to the closed form entry by entry. '
             'Any structural mismatch is decided end to end with the real contend (semantic fallback; thorough runs that for every slot).',
        note='Reference cycle lists and their listed conventions (HALT fetch address while halted; OTIR/OTDR trailing cycles use BC before the decrement, as both skoolkit implementations do) are trusted. '
             'Quick visits all slots on 48K and, on 128K, the I/O slots plus every 16th slot (the closures are the same code; contend_128k/io_contention_128k are checked directly). C implementation: via C06.',
        design='4 (C19), 3.2', technique=TECH + '; captured contention patterns vs documented machine cycles, fold lemma for contend()'),
    'C07': dict(
        text='The finite opcode space (all 1786 instruction slots) is enumerated at an interior address and at 65534/65535 (thorough: also 65532/65533) with symbolic operand bytes; per slot the byte length from the skool disassembler '
             '(every additional-opcode setting, wrap on/off), the trace disassembler, sna2ctl\'s decoder and the Python simulator closure (PC delta / bytes fetched), the mnemonic skeleton and operand values of the two disassemblers '
             '(operand equality decided by z3 over numeral tokens), and the T-state sets (every simulator path\'s delta is in the timing table entry and vice versa) are compared; any KeyError/IndexError path is a violation.',
        note='Enumeration over opcodes (as the property itself prescribes) with symbolic operands. C dispatch data are tied to the Python simulator by C06. Python format() digit rendering is abstracted by numeral tokens. '
             'Known finding recorded: relative jumps at 65535 with Wrap on fall back to a 1-byte DEFB.',
        design='4 (C07)', technique='enumeration of the finite opcode space with symbolic operands; real decoders executed on z3 proxies; z3 decides operand-value equality'),
    'C06': dict(
        text='For every dispatch slot, plain and contended builds, the real Python closure (Engine A) and the LLVM IR clang emits for the real C handler (Engine B) are executed from one symbolic machine state and z3 shows all '
             'registers (29 plain / 30 contended incl. MEMPTR), memory and port events equal on every joint path (48K: all slots; 128K: I/O slots + every 32nd in quick, all in thorough). accept_interrupt likewise. Contended: the '
             'contend() arguments of both sides are captured and compared cycle by cycle, and the real contend_48k/128k of both languages are shown equal for symbolic patterns (delay tables as an uninterpreted function). '
             'Every entry of every C lookup table, as filled by the real init_* functions of a compiled copy, is compared with the Python table. The IR interpreter is validated each run on 240 concrete states against the compiled extension.',
        note='Bound: one instruction. Not covered: the run/trace/exec_frame loops around the handlers (dispatch macro, interrupt test), CSimulator_load, the tools\' --python switch. Trusted: lib/llsym.py (IR reader/interpreter), '
             'clang -O1 as the compiler of record, stubs for CPython calls (tracer callbacks become port events; refcounts ignored).',
        design='4 (C06), 2.2', technique='symbolic execution of the Python closure and of the C handler\'s LLVM IR from one symbolic state; z3 equivalence per joint path', engine='symx+llsym'),
    'C02': dict(
        text='Direction 1: for all 1786 instruction slots the real Disassembler decodes memory whose operand bytes are symbolic; its text (numbers as numeral tokens, characters as symbolic characters) is fed to the real '
             'Assembler._assemble and z3 shows the bytes equal the decoded bytes for every operand value, in bases n b c d h m (all 36 pairs for LD (IX+d),n), hex/decimal default, either case; relative jumps at a symbolic address 0..65535 with wrap on; '
             'flagged variants are accepted as the property says. DEFB/DEFM/DEFW/DEFS over symbolic data with single and mixed sublength lists likewise (statements must tile the range). '
             'Direction 2: 38 templates x 5 operand spellings with symbolic values are assembled (what the assembler returns must be bytes), disassembled and re-assembled; byte equality by z3.',
        note='Abstracted and trusted: the digit rendering of Python format()/int() (numeral tokens) and chr()/ord() of ordinary characters (symbolic characters; the characters that matter to quoting are realised). '
             "Excluded as not 'signed operands': base m on port numbers and DEFS sizes. Outside: arithmetic expressions/odd whitespace in operands.",
        design='4 (C02), 2.1 (numerals)', technique=TECH + '; symbolic numerals through the real text interface'),
    'C09': dict(
        text='The real Z80 run-length coder is executed on symbolic data (up to 7 (thorough 10) free bytes; runs of a symbolic byte of length up to 600 alone/before/after/between other symbolic bytes, both block forms): '
             'decompress(compress(d)) == d, every emitted element is a byte, and a decoder written from the published format agrees - all by z3 per path. The real Z80 and SZX classes write registers and hardware state given as symbolic '
             'numeral specs and read them back: every attribute (all 8/16-bit registers, MEMPTR, IFF, IM, border, T-states over the whole frame, 7FFD, FFFD, AY, FE) equals what was written, for 48K/128K/+2, and decoders written from the '
             'published Z80 v3 and ZX-State layouts read the same values from the bytes (so the two formats agree). snapshot.poke changes exactly the addressed cell (symbolic address/value/page, operators = ^ +, banks with distinct symbolic contents) and a stepped range exactly its cells; snapshot.move (flat, overlapping, paged, at a bank end) leaves exactly the copied block at the destination and bank sizes unchanged.',
        note='zlib is an opaque invertible stub; bytes/bytearray are list-backed stand-ins; numeral tokens abstract format()/int(). RAM contents in the header checks are zero (RAM coding is the RLE part). Outside: SNA, --patch, file I/O, command-line parsing.',
        design='4 (C09), 3.3', technique=TECH + '; reference decoders from the published formats'),
    'C01': dict(
        text='Block level: for ~100 control-file shapes (every block type, sub-block types B C S T W, sublength lists with b c d h m n prefixes, * multipliers, L loops, M, ignored blocks, statements cut short by a sub-block end, '
             'code fragments with pinned opcodes incl. variants and prefixes) over a window of symbolic memory, the real CtlParser and the real snaskool.Disassembly build the entries; per statement the skool2bin rule (@bytes list if present, '
             'else the real assembler) is applied in file order and z3 shows every address of every non-ignored block gets back its original byte, for hex/decimal, case, DefbSize/DefmSize/DefwSize and Opcodes settings. '
             'Textual route: for the same corpus the real SkoolWriter writes the skool file (numbers are numeral tokens), the real skool2bin BinWriter reads that text and assembles it, and z3 shows its image equals the memory at every address of a non-ignored block '
             '(known finding: an ignored block in the middle leaves a gap that skool2bin closes). Together with C02 (every instruction and data statement, every operand value/base/address) this covers the arithmetic of the property.',
        note='On the textual route jump operands are concrete and symbolic words are hashed by identity in skool2bin\'s address dictionary (taken not to equal an instruction address). Outside: line width, RST-argument handlers, whole 64K images, ctl text beyond the corpus. Character-based shapes use 2 symbolic bytes (the rest fixed to '
             'characters that exercise escaping); DEFS fill value ranges over 9 representative values.',
        design='4 (C01)', technique=TECH + '; corpus of control-file shapes over symbolic memory'),
    'C11': dict(
        text='tape.get_edges is executed on 1-2 blocks (data; tone+data; data+data; pulse sequences) whose every pulse width, bit-pulse width, tail, pause and first edge is symbolic, for used bits 1..8, polarity 0/1, block polarity None/0/1, '
             'with and without zero-length bit pulses: z3 shows the edge list non-decreasing, each data-block range starting at the edge where the data begins (at the time the preceding pulses and pauses add up to, at the level the block polarity demands) '
             'and ending at its last/tail edge, every bit pulse inside the range having exactly the width its bit prescribes, and no edge beyond the end of the signal. write_tap->parse_tap and write_pzx->parse_pzx return the symbolic bytes written; '
             'the same bytes as TAP, TZX standard-speed block and PZX give the same pilot, sync and data pulses. Bits encoded by different numbers of pulses (1/2, 2/3, 3/1). PZX PULS (all four entry forms, 1-2 entries) and DATA blocks with symbolic fields parse to the '
             'specified pulses; TZX blocks 0x11, 0x12, 0x13, 0x14 with symbolic fields give the same edge list as the PZX PULS/DATA blocks describing the same signal (no pause).',
        note='Data bytes range over 6 values (the byte is realised by the per-byte timing table). A data block that follows a pause with no pulses of its own has no edge at the end of the pause: its first pulse is checked as pause+width (an edge list '
             'records level changes only). write_pzx adds the PZX-conventional 945 T tail pulse, which TAP lacks: allowed. Outside: long data, direct recording / generalized data / CSW blocks, tapinfo text, start/stop/skip.',
        design='4 (C11)', technique=TECH),
    'C14': dict(
        text='snactl.generate_ctls (both generators, with and without a code map) is run on short ranges: 7 code-like prefixes followed by 1-2 (thorough 3) bytes ranging over 18 representative values, plus 0-2 such bytes beyond END so that the last '
             'instruction can straddle it; on every path the directives start at START, strictly increase, end with i at END, and every code-map address lies in a c block.',
        note='Narrow and enumeration-driven: the decoder tables are dictionaries keyed by byte value, so the solver only enumerates the byte combinations (stated in the evidence). Outside: termination in general, text heuristics on long data, '
             '-C/-r sub-block directives vs sna2skool, large images, other code-map formats.',
        design='4 (C14)', technique='solver-driven enumeration of short windows through the real generators (bytes realised via z3 models); tiling assertions per path'),
    'C04': dict(
        text='(a) Conversion kernel: InstructionUtility.convert (base 10/16, lower/upper case) on 60 instruction and DEFB/DEFM/DEFS/DEFW templates whose numeric operands are symbolic numerals (decimal, $HEX, $hex spellings; index offsets, '
             'relative jumps, arithmetic expressions, strings containing digits, $ and ;): the real assembler assembles original and converted text and z3 decides byte equality for every operand value. '
             '(b) Pipeline: three skool templates (size-preserving @isub/@ssub/@rsub/@ofix/@bfix/@rfix replacements; insert-before/after, overwrite and remove with labelled targets; @if, +/- block directives, second @org, @equ, @keep, @nowarn) '
             'with symbolic byte operands and word operands over an address window are run through the real SkoolParser + AsmWriter for every asm/fix mode and (base, case, -c) option set and through the real BinWriter; the emitted listing is assembled '
             '(labels, ORG, EQU resolved by a small harness assembler driving skoolkit\'s Assembler) and z3 decides that it equals the skool2bin image byte for byte, and (size-preserving templates) that the parser snapshot read by #PEEK equals it too.',
        note='Bound: the template corpus. Word operands that reach the label lookup (a dict keyed by address) are realised over a window of ~45 addresses. Outside: files whose instructions move while referring to unlabelled addresses '
             '(skool2asm keeps the literal address, skool2bin relocates it: documented, warned about), @bytes, @defb/@defs/@defw data directives, @bank, @remote, macro expansion of #PEEK itself, image macros, asm_mode 0 of skool2bin.',
        design='4 (C04)', technique=TECH + '; symbolic numerals through the real parser/writer/assembler; differential between the two tool chains'),
    'C20': dict(
        text='(a) The real rzxplay.process_block frame loop is run on a symbolic machine state for one frame holding one instruction, per opcode slot (quick: every eighth slot of each table; thorough: all 1792) and playback flags 0-3: the fetch counter it '
             'reports (TraceLine {fc}) drops by exactly the M1 count of the instruction, the loop stops there, and the state after the frame boundary equals the Z80 reference step followed by the documented boundary rules '
             '(T reset; interrupt accepted when enabled; HALT: PC advanced first; flag 1: LD A,I/R resets bit 2 of F; flag 2: EI before a frame of 1-2 fetches blocks it). '
             '(b) write_rzx -> parse_rzx with symbolic fetch counters and port readings (1-8 frames, start index 0-2, Z80 and SZX snapshots): the frames parsed are the remaining frames written.',
        note='Outside: frames of more than one instruction, whole recordings and desynchronisation detection, CSimulator_exec_frame, recordings with several input blocks, the 65535 repeated-frame marker, 128K paging and contended playback, rzxinfo. '
             'Assumes memory[0] == 0xF3 (rzxplay passes 0 as previous PC to accept_interrupt) and that the instruction does not overwrite its own opcode bytes.',
        design='4 (C20)', technique=TECH + '; reference Z80 model + documented frame-boundary rules as oracle'),
    'C03': dict(
        text='The whole textual round trip on symbolic memory: for ~95 control files (the C01 corpus: every block/sub-block type, sublength lists with all bases, multipliers, loops, M directives, code fragments; plus annotated files with titles, D/R/N/E/M, '
             'dots-only and blank comments, dot/colon continuation lines, header/footer blocks, @ directives incl. ignoreua) over a window of 6-14 symbolic bytes, the real CtlParser + SkoolWriter write a skool file, the real skool2ctl (SkoolParser + '
             'ControlDirectiveComposer + CtlWriter, -b, and -k for the annotated files) turns that text into a control file, and the real CtlParser + SkoolWriter regenerate a skool file from it and the same memory. z3 decides that the two skool files '
             'are equal line by line (same text; every number the same value in the same base; every character the same) and that a second trip gives the same control file.',
        note='Bound: the corpus and the window size. Jump operands are concrete (referrer bookkeeping is keyed by address). Outside: skool files not produced by sna2skool, skool2ctl -h/-l, sna2skool -w, whole programs.',
        design='4 (C03)', technique=TECH + '; symbolic numerals and characters through the real writers and parsers'),
    'C12': dict(
        text='Machine-code loader path without CLEAR: the real bin2tap.run (stack pre-fill arithmetic, _get_data_loader, _make_block) is executed for a binary of 1-8 symbolic bytes with symbolic ORG, START and STACK; the loader it emits is then '
             'executed from 23296 by the real Simulator closures over a memory holding the real 48K ROM, the jump to LD-BYTES (0x0556) is served by the real LoadTracer.fast_load with the emitted data block, and the ROM SA/LD-RET code runs to its final RET. '
             'z3 decides PC == START, SP == STACK and memory[ORG+i] == byte i except in the documented stack area STACK-14..STACK-1.',
        note='Narrow: outside are the BASIC loader and the loading of the loader block itself (ROM interpreter), edge-level loading, --clear, loading screens, the 128K bank loader, PZX output, interrupts while the loader runs, and binaries/stacks overlapping 23296-23319.',
        design='4 (C12)', technique=TECH + '; the emitted machine code is executed symbolically by the real simulator'),
    'C18': dict(
        text='skool2asm and sna2skool (not skool2html): the real SkoolParser + AsmWriter convert a corpus of 4 skool entries (long unbreakable words, multi-instruction comment groups, registers, paragraphs, end comments, operations wider than the instruction field) with a symbolic '
             'line width 40..200 (and comment-width-min 1..40; instruction-width 5..40 enumerated). Each path stands for all widths that wrap identically: the emitted words equal the source words in order, every instruction appears once, and z3 shows '
             'for every output line len(line) <= line_width over the whole width set of the path, unless the line holds a single unbreakable item (word, or an instruction field leaving fewer than comment-width-min columns), with a warning for instruction lines. The real CtlParser + SkoolWriter write two annotated control files as skool files '
             'with a symbolic line width 40..200: every word of the control file appears in order, and no line longer than the width holds more than one word.',
        note='Narrow: the bound is the corpus; skool2html, tables/lists and tab/CRLF settings are outside.',
        design='4 (C18)', technique=TECH + '; symbolic width parameters through the real text wrapper'),
    'C13': dict(
        text='Accelerator arithmetic only. LoadTracer.dec_a is shown equal to the DEC A: JR/JP NZ loop it replaces by induction over A from an arbitrary state (accelerated(S) == accelerated(real iteration(S)) when the loop repeats, == the real instructions '
             'falling through otherwise; all registers incl. F, R, T, PC and memory), using the real Simulator closures; the C dec_a handler (LLVM IR) is shown equal to the Python one. For each of the 53 sampling-loop signatures in loadsample.ACCELERATORS '
             'the signature code is executed symbolically for one trip round the loop (no edge, IN value symbolic): T delta == loop_time, R advance == loop_r_inc, counter +-1, memory untouched, back at the IN instruction. '
             'The fast-forward itself (LoadTracer._read_port with a matching accelerator; quick: every 5th accelerator, thorough: all 53) runs on a symbolic clock, next-edge distance (-1000..60000 T), counter, R and EAR register: the state moves by a whole number n of trips, '
             'no skipped sample lies after the edge, the counter does not reach its end value, flags are those of the last INC/DEC, and the returned EAR bit matches the edge index after the fast-forward.',
        note='Outside: the C read_port/advance_tape fast-forward, whole-tape loads, fast_load vs the ROM routine, the C read_port/advance_tape, pause/first-edge options. Assumes an absolute jump closing a loop targets the signature start; '
             'wildcard bytes fixed to 0 (they are never executed on a trip round the loop).',
        design='4 (C13)', technique=TECH + '; induction over the loop counter; Engine B for the C handler', engine='symx+llsym'),
    'C10': dict(
        text='The state a later instruction can read (all 30 register slots, T over a frame, border, FE, 7FFD, FFFD, 16 AY registers, RAM cells) is symbolic in a real simulator + tracer; the real get_state -> write_snapshot (Z80, SZX) -> Snapshot.get -> '
             'get_registers chain (as from_snapshot uses it) runs on it and z3 decides component-wise that the restored state equals the saved one (SZX incl. MEMPTR, Z80 except MEMPTR) for 48K/128K/+2. With instruction determinism (C05/C06) this gives transparency at every split point. The Python loop of trace.py (Tracer.run) over a four-instruction set with exact effects and a symbolic clock: two instructions in one go == one instruction, stop, one instruction from the state left (the interrupt schedule depends on the saved state only).',
        note='Known finding: the HALT flag is not saved (6 entries, one per format x machine). Outside: trace.run option handling, the C trace loop, SNA, construction of the C simulator object. '
             '3 RAM cells symbolic, the rest zero.',
        design='4 (C10)', technique=TECH),
}
NOT_APPLICABLE = {
    'C15': 'Attempted and withdrawn: the pixel encoders are tables indexed by byte value and the crop arithmetic of ImageWriter/PngWriter drives range() and slice bounds, so a symbolic crop rectangle or pixel byte is realised value by value - every path is one concrete '
           'image and the run is plain enumeration (40,000 paths for a 3x2 tile image), which is exhaustive testing, not this technique; zlib and the CRC sit behind the C boundary. One defect found while building the harness (flash rectangle of a crop with '
           'x >= width) is fixed in /repo and recorded in known_findings.json (DESIGN.md sections 5 and 7.3).',
    'C16': 'HTML link/anchor consistency is a property of generated document structure (which files and id= strings exist); there is no bounded arithmetic/data path to make symbolic - a solver encoding would be a copy of the writer (DESIGN.md section 5).',
    'C17': 'Macro expansion is delimiter/nesting parsing plus Python eval/format; CrossHair realises integers on formatting and cannot decide regexes on symbolic strings at useful lengths, and a hand encoding would restate Python semantics (DESIGN.md section 5).',
}
NOT_BUILT = 'check not built yet in this session (see DESIGN.md section 7); not claimed'

def main():
    props = [json.loads(l) for l in open(os.path.join(ROOT, 'properties.jsonl'))]
    checks = []
    na = []
    for p in props:
        pid = p['id']
        if pid in CLAIMED:
            c = CLAIMED[pid]
            checks.append({
                'property_id': pid,
                'quick_cmd': './check %s quick' % pid,
                'thorough_cmd': './check %s thorough' % pid,
                'evidence_file': 'evidence/%s.json' % pid,
                'replay_cmd_template': './check %s --replay {path}' % pid,
                'engine': c.get('engine', 'symx'),
                'level_claimed': {'category': 'other', 'text': c['text'], 'design_ref': 'DESIGN.md section ' + c['design']},
                'level_note': c['note'],
                'technique': c['technique'],
            })
        else:
            na.append({'property_id': pid, 'reason': NOT_APPLICABLE.get(pid, NOT_BUILT)})
    man = {
        'version': 1,
        'setup_cmd': './setup.sh',
        'hooks': {'guard': 'SKOOLKIT_VERIF', 'enable': 'none needed: all instrumentation is done from /verif by substituting data and module-level names at run time',
                  'baseline_off_cmd': 'cd /repo && /venv/bin/python -m pytest -ra -q -p no:cacheprovider --timeout=900 --continue-on-collection-errors',
                  'source_commits': [], 'add_only': True},
        'engines': [
            {'name': 'symx', 'path': 'lib/symx.py', 'serves_properties': sorted(CLAIMED), 'kind_free_text': 'symbolic execution of the real Python code on z3 bit-vector/array proxies, fork by re-execution'},
            {'name': 'llsym', 'path': 'lib/llsym.py', 'serves_properties': ['C06'], 'kind_free_text': 'symbolic interpreter for the LLVM IR clang emits for c/csimulator.c (regenerated every run)'},
        ],
        'checks': checks,
        'not_applicable': na,
        'notes': 'All checks: exit 0 = held within the stated bounds; 1 = VIOLATION (replayed on the unpatched code first); 3 = inconclusive/harness error (never a pass).',
    }
    json.dump(man, open(os.path.join(ROOT, 'MANIFEST.json'), 'w'), indent=1)
    print('claimed', [c['property_id'] for c in checks])

main()
