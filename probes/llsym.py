"""Probe: symbolic interpreter for the LLVM IR of c/csimulator.c opcode handlers (forking, z3 BV)."""
import re, z3
from symx import Ctx, Abort, explore

class Ptr:
    def __init__(self, region, off):
        self.region, self.off = region, off      # off: z3 BV64 byte offset
    def __repr__(self): return 'Ptr(%s,%s)' % (self.region, z3.simplify(self.off))

NULL = Ptr(None, z3.BitVecVal(0, 64))

def parse_module(path):
    src = open(path).read()
    funcs = {}
    for m in re.finditer(r'^define [^@]*@(\w+)\(([^)]*)\)[^{]*\{\n(.*?)^\}', src, re.S | re.M):
        name, args, body = m.groups()
        blocks = {}
        cur = 'entry'
        blocks[cur] = []
        for line in body.split('\n'):
            line = line.split(', !')[0].rstrip()
            if not line.strip():
                continue
            lm = re.match(r'^(\d+):', line)
            if lm:
                cur = lm.group(1)
                blocks[cur] = []
                continue
            blocks[cur].append(line.strip())
        argnames = re.findall(r'(%\d+)', args)
        funcs[name] = (argnames, blocks)
    structs = {}
    for m in re.finditer(r'^(%struct\.[\w.]+) = type \{(.*)\}$', src, re.M):
        structs[m.group(1)] = m.group(2)
    globs = {}
    for m in re.finditer(r'^@(\w+) = (?:internal |private |dso_local )*(?:unnamed_addr )?(?:global|constant) (.*)$', src, re.M):
        globs[m.group(1)] = m.group(2)
    return funcs, structs, globs

def tsize(t):
    t = t.strip()
    if t.endswith('*'): return 8
    m = re.fullmatch(r'i(\d+)', t)
    if m: return max(1, int(m.group(1)) // 8)
    m = re.fullmatch(r'\[(\d+) x (.*)\]', t)
    if m: return int(m.group(1)) * tsize(m.group(2))
    raise ValueError(t)

def elem_type(t):
    m = re.fullmatch(r'\[(\d+) x (.*)\]', t.strip())
    return m.group(2)

# field layout of CSimulatorObject (non-contended build): index -> name
SELF_FIELDS = {2: 'registers', 3: 'memory', 4: 'roms', 5: 'banks', 6: 'mem128', 7: 'frame_duration', 8: 'int_active'}

class State:
    def __init__(self, regs, mem, tables):
        self.regs = regs          # list of 30 z3 BV64
        self.mem = mem            # z3 Array BV64->BV8 (48K flat)
        self.tables = tables      # name -> python callable(offset_expr) -> BV8
        self.allocas = {}

class Interp:
    def __init__(self, funcs, state, ctx):
        self.funcs, self.st, self.ctx = funcs, state, ctx

    def val(self, env, tok, ty):
        tok = tok.strip()
        if tok.startswith('%'):
            return env[tok]
        if tok == 'null':
            return NULL
        if tok in ('true', 'false'):
            return z3.BoolVal(tok == 'true')
        w = int(ty[1:])
        if w == 1:
            return z3.BoolVal(int(tok) != 0)
        return z3.BitVecVal(int(tok), w)

    def call(self, fname, args):
        argnames, blocks = self.funcs[fname]
        env = dict(zip(argnames, args))
        cur, prev = 'entry', None
        # entry label: first block key
        if 'entry' not in blocks or not blocks['entry']:
            cur = next(iter(blocks))
        nargs = len(argnames)
        if cur == 'entry':
            pass
        while True:
            for ins in blocks[cur]:
                r = self.step(env, ins, prev, cur, nargs)
                if r is not None:
                    kind, v = r
                    if kind == 'br':
                        prev, cur = cur, v
                        break
                    if kind == 'ret':
                        return v
            else:
                raise RuntimeError('fell off block')

    def step(self, env, ins, prev, cur, nargs):
        st = self.st
        m = re.match(r'(%\d+) = (.*)', ins)
        dst, rhs = (m.group(1), m.group(2)) if m else (None, ins)
        op = rhs.split()[0]
        if op == 'getelementptr':
            mm = re.match(r'getelementptr (?:inbounds )?(.+?), (.+?)\* (%\d+|@\w+)((?:, i\d+ [^,]+)*)$', rhs)
            bty, pty, base, idxs = mm.groups()
            idxs = [(t, v) for t, v in re.findall(r', (i\d+) ([^,]+)', idxs)]
            p = env[base] if base.startswith('%') else Ptr(('global', base[1:]), z3.BitVecVal(0, 64))
            if bty.startswith('%struct.CSimulatorObject'):
                assert idxs[0][1] == '0'
                f = int(idxs[1][1])
                sub = z3.BitVecVal(0, 64)
                if len(idxs) > 2:
                    sub = self.ext(self.val(env, idxs[2][1], idxs[2][0]), 64) * 8
                env[dst] = Ptr(('self', f), sub)
                return
            off = p.off
            ty = bty
            first = True
            for t, v in idxs:
                iv = self.ext(self.val(env, v, t), 64, signed=True)
                if first:
                    off = off + iv * tsize(ty); first = False
                else:
                    ty = elem_type(ty)
                    off = off + iv * tsize(ty)
            env[dst] = Ptr(p.region, off)
            return
        if op == 'load':
            mm = re.match(r'load (.+?), (.+?)\* (%\d+)', rhs)
            ty, _, src = mm.groups()
            p = env[src]
            env[dst] = self.load(p, ty)
            return
        if op == 'store':
            mm = re.match(r'store (.+?) (\S+), (.+?)\* (%\d+)', rhs)
            ty, v, _, d = mm.groups()
            self.store(env[d], ty, self.val(env, v, ty))
            return
        if op in ('add', 'sub', 'mul', 'and', 'or', 'xor', 'shl', 'lshr', 'ashr', 'urem', 'udiv'):
            mm = re.match(r'\w+ (?:nuw |nsw |exact )*(i\d+) (\S+), (\S+)', rhs)
            ty, a, b = mm.groups()
            a, b = self.val(env, a, ty), self.val(env, b, ty)
            if ty == 'i1':
                f = {'and': z3.And, 'or': z3.Or, 'xor': z3.Xor}[op]
                env[dst] = f(a, b)
                return
            f = {'add': lambda: a + b, 'sub': lambda: a - b, 'mul': lambda: a * b, 'and': lambda: a & b,
                 'or': lambda: a | b, 'xor': lambda: a ^ b, 'shl': lambda: a << b, 'lshr': lambda: z3.LShR(a, b),
                 'ashr': lambda: a >> b, 'urem': lambda: z3.URem(a, b), 'udiv': lambda: z3.UDiv(a, b)}[op]
            env[dst] = f()
            return
        if op in ('zext', 'sext', 'trunc'):
            mm = re.match(r'\w+ (i\d+) (\S+) to (i\d+)', rhs)
            t1, v, t2 = mm.groups()
            x = self.val(env, v, t1)
            w2 = int(t2[1:])
            if op == 'trunc':
                env[dst] = z3.Extract(w2 - 1, 0, x) if w2 > 1 else (z3.Extract(0, 0, x) == 1)
            else:
                env[dst] = self.ext(x, w2, signed=(op == 'sext'))
            return
        if op == 'bitcast':
            mm = re.match(r'bitcast .+? (%\d+) to', rhs)
            env[dst] = env[mm.group(1)]
            return
        if op == 'icmp':
            mm = re.match(r'icmp (\w+) (.+?) (\S+), (\S+)$', rhs)
            pred, ty, a, b = mm.groups()
            if ty.endswith('*'):
                a, b = self.val(env, a, ty), self.val(env, b, ty)
                same = (a.region is None) == (b.region is None)
                env[dst] = z3.BoolVal(same if pred == 'eq' else not same)
                return
            a, b = self.val(env, a, ty), self.val(env, b, ty)
            f = {'eq': lambda: a == b, 'ne': lambda: a != b, 'ult': lambda: z3.ULT(a, b), 'ule': lambda: z3.ULE(a, b),
                 'ugt': lambda: z3.UGT(a, b), 'uge': lambda: z3.UGE(a, b), 'slt': lambda: a < b, 'sle': lambda: a <= b,
                 'sgt': lambda: a > b, 'sge': lambda: a >= b}[pred]
            env[dst] = f()
            return
        if op == 'select':
            mm = re.match(r'select i1 (\S+), (\S+) (\S+), (\S+) (\S+)', rhs)
            c, t1, a, t2, b = mm.groups()
            c = self.val(env, c, 'i1')
            env[dst] = z3.If(c, self.val(env, a, t1), self.val(env, b, t2))
            return
        if op == 'phi':
            mm = re.match(r'phi (.+?) (\[.*)$', rhs)
            ty, rest = mm.groups()
            for v, lbl in re.findall(r'\[ (\S+), %(\w+) \]', rest):
                if lbl == prev or (prev == 'entry' and lbl == str(nargs)):
                    env[dst] = self.val(env, v, ty)
                    return
            raise RuntimeError('phi: no pred %s in %s' % (prev, rhs))
        if op == 'br':
            mm = re.match(r'br label %(\w+)', rhs)
            if mm:
                return ('br', mm.group(1))
            mm = re.match(r'br i1 (\S+), label %(\w+), label %(\w+)', rhs)
            c, a, b = mm.groups()
            c = self.val(env, c, 'i1')
            return ('br', a if self.ctx.branch(c) else b)
        if op == 'ret':
            return ('ret', None)
        if op in ('call', 'tail'):
            if 'llvm.lifetime' in rhs:
                return
        raise NotImplementedError(ins)

    def ext(self, x, w, signed=False):
        if z3.is_bool(x):
            x = z3.If(x, z3.BitVecVal(1, 1), z3.BitVecVal(0, 1))
        d = w - x.size()
        if d == 0: return x
        if d < 0: return z3.Extract(w - 1, 0, x)
        return z3.SignExt(d, x) if signed else z3.ZeroExt(d, x)

    def load(self, p, ty):
        st = self.st
        kind = p.region[0]
        if kind == 'self':
            f = SELF_FIELDS[p.region[1]]
            if f == 'registers': return Ptr(('regs',), z3.BitVecVal(0, 64))
            if f == 'memory': return Ptr(('mem',), z3.BitVecVal(0, 64))
            if f == 'frame_duration': return z3.BitVecVal(69888, 32)
            if f == 'int_active': return z3.BitVecVal(32, 32)
            raise NotImplementedError(f)
        if kind == 'regs':
            off = z3.simplify(p.off)
            assert z3.is_bv_value(off), off
            return st.regs[off.as_long() // 8]
        if kind == 'mem':
            assert ty == 'i8'
            return z3.Select(st.mem, p.off)
        if kind == 'args':
            off = z3.simplify(p.off).as_long()
            return z3.BitVecVal(st.args[off // 4], 32)
        if kind == 'global':
            return st.tables[p.region[1]](p.off)
        raise NotImplementedError(p)

    def store(self, p, ty, v):
        st = self.st
        kind = p.region[0]
        if kind == 'regs':
            off = z3.simplify(p.off).as_long()
            st.regs[off // 8] = v
        elif kind == 'mem':
            st.mem = z3.Store(st.mem, p.off, v)
        else:
            raise NotImplementedError(p)

def parse_optable(globs, name):
    """@opcodes etc -> list of (func, lookup_global or None, args)"""
    txt = globs[name]
    out = []
    for m in re.finditer(r'OpcodeFunction \{ [^@]*?(@(\w+)|null), i8\* (null|getelementptr inbounds \([^@]*@(\w+)[^)]*\)|bitcast \([^@]*@(\w+) to i8\*\)), \[7 x i32\] (zeroinitializer|\[([^\]]*)\]) \}', txt):
        func = m.group(2)
        lookup = m.group(4) or m.group(5)
        args = [0] * 7 if m.group(6) == 'zeroinitializer' else [int(x) for x in re.findall(r'i32 (-?\d+)', m.group(7))]
        out.append((func, lookup, args))
    return out
