"""Derive symbolic lookup tables from the generator-expression definitions in a module's source."""
import ast, z3
from symx import SymInt, SymBool, Ctx, bv, W

class SymBin:
    def __init__(self, v): self.v = v
    def count(self, ch):
        assert ch == '1'
        e = bv(self.v)
        # popcount over low 16 bits (obligation: value in 0..65535)
        Ctx.cur.oblig.append(('bin-range', z3.And(e >= 0, e < 65536)))
        tot = z3.BitVecVal(0, W)
        for i in range(16):
            tot = tot + z3.ZeroExt(W - 1, z3.Extract(i, i, e))
        return SymInt(tot)

def sym_bin(v):
    if isinstance(v, int):
        return bin(v)
    return SymBin(v)

class ConstTable:
    """wraps a concrete tuple so it can be indexed symbolically"""
    def __init__(self, tup):
        self.tup = tup
    def __len__(self): return len(self.tup)
    def __getitem__(self, i):
        if isinstance(i, int):
            return wrap(self.tup[i])
        Ctx.cur.oblig.append(('index', z3.And(bv(i) >= 0, bv(i) < len(self.tup))))
        return select(self.tup, bv(i))
    def __iter__(self):
        return iter(wrap(x) for x in self.tup)

def select(tup, ie):
    first = tup[0]
    if all(x == first for x in tup):
        return wrap(first)
    if isinstance(first, tuple):
        n = len(first)
        return tuple(select(tuple(x[k] for x in tup), ie) for k in range(n))
    if isinstance(first, int):
        e = z3.BitVecVal(tup[-1], W)
        for k in range(len(tup) - 2, -1, -1):
            e = z3.If(ie == k, z3.BitVecVal(tup[k], W), e)
        return SymInt(e)
    raise TypeError(type(first))

def wrap(x):
    if isinstance(x, tuple) and x and isinstance(x[0], (tuple, int)) and len(x) > 4:
        return ConstTable(x)
    return x

class GenTable:
    def __init__(self, elt, var, it, env):
        self.elt, self.var, self.it, self.env = elt, var, it, env
        self._len = None
    def _iter_info(self):
        it = self.it
        if isinstance(it, ast.Call) and isinstance(it.func, ast.Name) and it.func.id == 'range':
            args = [ev(a, self.env) for a in it.args]
            if len(args) == 1: start, stop, step = 0, args[0], 1
            elif len(args) == 2: start, stop, step = args[0], args[1], 1
            else: start, stop, step = args
            assert isinstance(step, int)
            n = (stop - start) if step > 0 else (start - stop)
            if not isinstance(n, int):
                n = z3.simplify(bv(n))
                assert z3.is_bv_value(n), n
                n = n.as_signed_long()
            n = (n + abs(step) - 1) // abs(step)
            return ('range', start, step, n)
        seq = ev(it, self.env)
        assert isinstance(seq, tuple)
        return ('seq', seq, None, len(seq))
    def __len__(self):
        return self._iter_info()[3]
    def __getitem__(self, i):
        kind, a, step, n = self._iter_info()
        if not isinstance(i, int):
            Ctx.cur.oblig.append(('index', z3.And(bv(i) >= 0, bv(i) < n)))
        else:
            if not 0 <= i < n:
                raise IndexError(i)
        if kind == 'range':
            x = a + i * step
        else:
            x = a[i] if isinstance(i, int) else select(a, bv(i))
        env = dict(self.env)
        env[self.var] = x
        return ev(self.elt, env)

def ev(node, env):
    if isinstance(node, ast.Call) and isinstance(node.func, ast.Name) and node.func.id == 'tuple' \
            and len(node.args) == 1 and isinstance(node.args[0], ast.GeneratorExp):
        g = node.args[0]
        assert len(g.generators) == 1 and not g.generators[0].ifs
        comp = g.generators[0]
        assert isinstance(comp.target, ast.Name)
        return GenTable(g.elt, comp.target.id, comp.iter, env)
    if isinstance(node, ast.Tuple):
        return tuple(ev(e, env) for e in node.elts)
    code = compile(ast.Expression(node), '<symtable>', 'eval')
    return eval(code, {'__builtins__': {}}, env)

def load_tables(path, names=None):
    src = open(path).read()
    tree = ast.parse(src)
    env = {'bin': sym_bin, 'range': range, 'tuple': tuple}
    out = {}
    for st in tree.body:
        if isinstance(st, ast.Assign) and len(st.targets) == 1 and isinstance(st.targets[0], ast.Name):
            name = st.targets[0].id
            if names is not None and name not in names:
                continue
            val = ev(st.value, env)
            if isinstance(val, tuple):
                val = wrap(val)
            env[name] = val
            out[name] = val
    return out
