import sys, time, z3
sys.path.insert(0, '/root/scratch')
from symx import *
from symtables import load_tables, GenTable, ConstTable
import skoolkit.simtables as real_tables
import skoolkit.simulator as simmod

t0 = time.time()
tabs = load_tables('/repo/skoolkit/simtables.py')
print('tables', sorted(tabs))

# concrete validation of the translation (sample)
import random
rnd = random.Random(1)
def conc(t, idx):
    for i in idx: t = t[i]
    return t
class Dummy: pass
Ctx.cur = Dummy(); Ctx.cur.oblig = []
n = 0
for name, dims in [('ADC', (2,256,256)), ('SBC', (2,256,256)), ('DAA', (256,256)), ('BIT', (2,8,256)), ('CP', (256,256)), ('RLA',(256,256)), ('NEG',(256,)), ('SZ53P',(256,)), ('INC',(2,256)), ('SBC_A_A',(2,256)), ('SLA',(256,)), ('ADD',(256,256))]:
    for k in range(300):
        idx = [rnd.randrange(d) for d in dims]
        a = conc(tabs[name], idx); b = conc(getattr(real_tables, name), idx)
        assert a == b, (name, idx, a, b)
        n += 1
print('concrete validation ok', n, time.time() - t0)

# patch module tables
simtabs = load_tables('/repo/skoolkit/simulator.py', names={'JR_OFFSETS', 'OFFSETS', 'R1', 'R2'})
for k, v in tabs.items():
    setattr(real_tables, k, v)
for k, v in simtabs.items():
    setattr(simmod, k, v)

def mkstate(ctx):
    regs = []
    cons = []
    for i in range(30):
        v = z3.BitVec('r%d' % i, W)
        hi = 255
        if i in (12, 24, 29): hi = 65535
        if i == 25: hi = 2**40
        if i == 26: hi = 1
        if i == 27: hi = 2
        if i == 28: hi = 1
        cons.append(z3.And(v >= 0, v <= hi))
        regs.append(SymInt(v))
    mem = SymArray('mem', 65536)
    ctx.pc.extend(cons)
    return regs, mem

def run_opcode(opbytes):
    def fn(ctx):
        regs, mem = mkstate(ctx)
        mem0 = mem.arr
        pc = regs[24].e
        # constrain opcode bytes at PC
        for k, b in enumerate(opbytes):
            if b is not None:
                ctx.pc.append(z3.Select(mem0, (pc + k) & 0xFFFF) == b)
        sim = simmod.Simulator.__new__(simmod.Simulator)
        sim.memory = mem
        sim.registers = list(regs)
        sim.frame_duration = 69888
        sim.int_active = 32
        sim.create_opcodes()
        sim.set_tracer(None)
        r0 = list(sim.registers)
        sim.opcodes[opbytes[0]]()
        return r0, mem0, sim.registers, mem.arr
    return explore(fn)

def spec_add8(a, b, c):
    """reference: 8-bit add with carry-in, returns (res, flags) as BV W"""
    a8 = z3.Extract(7, 0, a); b8 = z3.Extract(7, 0, b); c1 = z3.Extract(0, 0, c)
    s9 = z3.ZeroExt(1, a8) + z3.ZeroExt(1, b8) + z3.ZeroExt(8, c1)
    res = z3.Extract(7, 0, s9)
    cf = z3.Extract(8, 8, s9)
    h5 = z3.ZeroExt(1, z3.Extract(3, 0, a8)) + z3.ZeroExt(1, z3.Extract(3, 0, b8)) + z3.ZeroExt(4, c1)
    hf = z3.Extract(4, 4, h5)
    sa = z3.Extract(7, 7, a8); sb = z3.Extract(7, 7, b8); sr = z3.Extract(7, 7, res)
    vf = (~(sa ^ sb)) & (sa ^ sr)
    zf = z3.If(res == 0, z3.BitVecVal(1, 1), z3.BitVecVal(0, 1))
    f = z3.Concat(sr, zf, z3.Extract(5, 5, res), hf, z3.Extract(3, 3, res), vf, z3.BitVecVal(0, 1), cf)
    return z3.ZeroExt(W - 8, res), z3.ZeroExt(W - 8, f)

for name, opb, cin in [('ADD A,(HL)', [0x86], False), ('ADC A,(HL)', [0x8E], True), ('ADD A,B', [0x80], False), ('ADC A,n', [0xCE, None], True)]:
    t = time.time()
    results, nq, qt = run_opcode(opb)
    print(name, 'paths', len(results), 'branch queries', nq, 'qtime %.2f' % qt)
    for ctx, (r0, mem0, r1, mem1) in results:
        a = r0[0].e; f = r0[1].e
        if name.endswith('(HL)'):
            operand = z3.ZeroExt(W - 8, z3.Select(mem0, r0[7].e + 256 * r0[6].e))
        elif name.endswith(',B'):
            operand = r0[2].e
        else:
            operand = z3.ZeroExt(W - 8, z3.Select(mem0, (r0[24].e + 1) & 0xFFFF))
        res, fl = spec_add8(a, operand, f if cin else z3.BitVecVal(0, W))
        prop = z3.And(r1[0].e == res, r1[1].e == fl, mem1 == mem0)
        r, m = ctx.check(z3.Not(prop))
        print('  spec check:', r, 'obligations', len(ctx.oblig))
        for kind, ob in ctx.oblig:
            r2, m2 = ctx.check(z3.Not(ob))
            if str(r2) != 'unsat':
                print('   obligation', kind, r2)
    print('  time %.2f' % (time.time() - t))
