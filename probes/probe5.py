import sys, time, z3
sys.path.insert(0, '/root/scratch')
from symx import *
import skoolkit
text = "The quick brown fox jumps over the lazy dog and averyveryverylongunbreakablewordthatcannotfit here; then more words follow it."
def fn(ctx):
    w = z3.BitVec('w', W)
    ctx.pc.append(z3.And(w >= 10, w <= 200))
    lines = skoolkit.wrap(text, SymInt(w))
    return w, lines
t = time.time()
res, nq, qt = explore(fn)
print('paths', len(res), 'queries', nq, 'time %.2f' % (time.time() - t))
words = text.split()
bad = 0
for ctx, (w, lines) in res:
    assert ' '.join(lines).split() == words   # words preserved in order (concrete per path)
    for ln in lines:
        if ' ' in ln or True:
            # line longer than width only if single word
            if len(ln.split()) > 1:
                r, m = ctx.check(w < len(ln))
                if str(r) != 'unsat': bad += 1
print('bad', bad)
# widths covered: sum of model counts should be 191
