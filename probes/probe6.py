import sys, time, z3
sys.path.insert(0, '/root/scratch')
from symx import *
import skoolkit.snapshot as snapmod
snapmod.bytes = lambda x: list(x)
Z = snapmod.Z80.__new__(snapmod.Z80)
def mk(n, runs=None):
    def fn(ctx):
        data = []
        for i in range(n):
            v = z3.BitVec('b%d' % i, W)
            ctx.pc.append(z3.And(v >= 0, v <= 255))
            data.append(SymInt(v))
        if runs:
            d2 = []
            for x, k in zip(data, runs):
                d2 += [x] * k
            data = d2
        blk = Z._make_z80_ram_block(data, 5)
        out = Z._decompress(blk[3:])
        return data, blk, out
    return fn
for n in (3, 4, 5):
    t = time.time()
    res, nq, qt = explore(mk(n))
    bad = 0
    for ctx, (data, blk, out) in res:
        if len(out) != len(data): bad += 1; continue
        r, m = ctx.check(z3.Or(*[bv(a) != bv(b) for a, b in zip(data, out)]))
        if str(r) != 'unsat': bad += 1
    print('n', n, 'paths', len(res), 'queries', nq, 'bad', bad, 'time %.2f' % (time.time() - t))
for runs in [(254, 1, 3), (255, 2), (256, 1), (300, 5, 1), (5, 255, 5), (510,1), (511,2)]:
    t = time.time()
    res, nq, qt = explore(mk(len(runs), runs))
    bad = 0
    for ctx, (data, blk, out) in res:
        if len(out) != len(data): bad += 1; continue
        r, m = ctx.check(z3.Or(*[bv(a) != bv(b) for a, b in zip(data, out)]))
        if str(r) != 'unsat': bad += 1
    print('runs', runs, 'paths', len(res), 'bad', bad, 'time %.2f' % (time.time() - t))
