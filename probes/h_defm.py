from typing import List
from skoolkit.disassembler import Disassembler, OperandFormatter
from skoolkit.z80 import Assembler, eval_string, split_operands
from skoolkit.textutils import split_unquoted

class Cfg:
    asm_hex = False
    asm_lower = False
    defb_size = 8
    defm_size = 66
    defw_size = 1
    handle_rst = False
    imaker = None
    opcodes = ''
    wrap = False

_D = Disassembler([0] * 65536, Cfg())
_A = Assembler()

def msg_roundtrip(data: List[int]) -> bool:
    """
    pre: 1 <= len(data) <= 3
    pre: all(0 <= b < 256 for b in data)
    post: _
    """
    text = _D.get_message(data)
    out = _A._assemble_defb(split_operands(text))
    return list(out) == data

def msg_roundtrip_chars(data: List[int]) -> bool:
    """
    pre: 1 <= len(data) <= 3
    pre: all(32 <= b < 127 and b not in (94, 96) for b in data)
    post: _
    """
    text = _D.get_message(data)
    out = _A._assemble_defb(split_operands(text))
    return list(out) == data

def witness(data: List[int]) -> bool:
    """
    pre: 1 <= len(data) <= 3
    pre: all(32 <= b < 127 and b not in (94, 96) for b in data)
    post: _
    """
    text = _D.get_message(data)
    out = _A._assemble_defb(split_operands(text))
    return list(out) != data
