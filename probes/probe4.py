import sys, time, z3, re
sys.path.insert(0, '/root/scratch')
from symx import *
import symx
from symtables import load_tables
import llsym
import skoolkit.simtables as real_tables
import skoolkit.simulator as simmod

t0 = time.time()
funcs, structs, globs = llsym.parse_module('/root/scratch/csim_O1.ll')
print('parsed IR: %d functions, %d globals in %.2fs' % (len(funcs), len(globs), time.time() - t0))
optabs = {n: llsym.parse_optable(globs, n) for n in ('opcodes', 'after_CB', 'after_ED', 'after_DD', 'after_FD', 'after_DDCB', 'after_FDCB')}
print({k: len(v) for k, v in optabs.items()})
print('opcodes[0x86] =', optabs['opcodes'][0x86], ' [0x22] =', optabs['opcodes'][0x22], ' [0xC5] =', optabs['opcodes'][0xC5])

tabs = load_tables('/repo/skoolkit/simtables.py')
simtabs = load_tables('/repo/skoolkit/simulator.py', names={'JR_OFFSETS', 'OFFSETS', 'R1', 'R2'})
for k, v in tabs.items(): setattr(real_tables, k, v)
for k, v in simtabs.items(): setattr(simmod, k, v)

def table_fn(name):
    ty = globs[name].rsplit(' zeroinitializer', 1)[0]
    dims = [int(x) for x in re.findall(r'\[(\d+) x', ty)]
    def f(off):
        # off: BV64 byte offset -> indices
        idx = []
        stride = 1
        strides = []
        for d in reversed(dims):
            strides.append(stride); stride *= d
        strides.reverse()
        for d, s in zip(dims, strides):
            fv = z3.BitVec('ti%d' % len(Ctx.cur.pc), 64)
            Ctx.cur.pc.append(fv == z3.URem(z3.UDiv(off, z3.BitVecVal(s, 64)), z3.BitVecVal(d, 64)))
            idx.append(SymInt(fv))
        t = tabs[name]
        for i in idx:
            t = t[i]
        return z3.Extract(7, 0, bv(t))
    return f

def mkregs(ctx):
    regs = []
    for i in range(30):
        v = z3.BitVec('r%d' % i, W)
        hi = 255
        if i in (12, 24, 29): hi = 65535
        if i == 25: hi = 2**32
        if i in (26, 28): hi = 1
        if i == 27: hi = 2
        ctx.pc.append(z3.And(v >= 0, v <= hi))
        regs.append(v)
    return regs

MEM0 = z3.Array('mem', z3.BitVecSort(W), z3.BitVecSort(8))

def run_c(tabname, opcode):
    func, lookup, args = optabs[tabname][opcode]
    def fn(ctx):
        regs = mkregs(ctx)
        st = llsym.State(list(regs), MEM0, {})
        st.args = args
        st.tables = {lookup: table_fn(lookup)} if lookup else {}
        it = llsym.Interp(funcs, st, ctx)
        selfp = llsym.Ptr(('selfobj',), z3.BitVecVal(0, 64))
        lk = llsym.Ptr(('global', lookup), z3.BitVecVal(0, 64)) if lookup else llsym.NULL
        it.call(func, [selfp, lk, llsym.Ptr(('args',), z3.BitVecVal(0, 64))])
        return regs, st.regs, st.mem
    return explore(fn)

def run_py(opcode):
    def fn(ctx):
        regs = mkregs(ctx)
        mem = SymArray('mem', 65536, arr=MEM0)
        sim = simmod.Simulator.__new__(simmod.Simulator)
        sim.memory = mem
        sim.registers = [SymInt(r) for r in regs]
        sim.frame_duration = 69888; sim.int_active = 32
        sim.create_opcodes(); sim.set_tracer(None)
        sim.opcodes[opcode]()
        return regs, [bv(r) for r in sim.registers], mem.arr
    return explore(fn)

for name, opc in [('ADD A,(HL)', 0x86), ('LD (nn),HL', 0x22), ('PUSH BC', 0xC5), ('ADC A,B', 0x88), ('JR NZ', 0x20), ('EX (SP),HL', 0xE3), ('INC (HL)', 0x34), ('DAA', 0x27)]:
    t = time.time()
    try:
        rc, nqc, _ = run_c('opcodes', opc)
    except NotImplementedError as e:
        print(name, 'C: not implemented:', e); continue
    rp, nqp, _ = run_py(opc)
    nchk = 0; bad = 0
    for cc, (r0, r1, m1) in rc:
        for cp, (p0, p1, pm1) in rp:
            s = z3.Solver()
            s.add(*cc.pc); s.add(*cp.pc)
            if s.check() != z3.sat:
                continue
            s.add(z3.Or(*[a != b for a, b in zip(r1, p1)], m1 != pm1))
            r = s.check(); nchk += 1
            if str(r) != 'unsat':
                bad += 1
                print('   DIFF', r, s.model() if str(r) == 'sat' else '')
    print('%-12s C paths %d, Py paths %d, compatible pairs checked %d, diffs %d, %.2fs' % (name, len(rc), len(rp), nchk, bad, time.time() - t))
