import sys, time, z3, io
sys.path.insert(0, '/root/scratch')
from symx import *
import skoolkit
from skoolkit.skoolparser import SkoolParser
from skoolkit.skoolasm import AsmWriter
import skoolkit.skoolasm as asmmod
import tempfile, os
from skoolkit.config import get_config
SKOOL = '''@start
; Routine at 32768
;
; This is a description of the routine that is quite long so that it needs to be wrapped over several lines when the width is small.
;
; A Some register with a long explanation of what it holds on entry to the routine
c32768 LD A,1        ; {This comment spans two instructions and is long enough to need wrapping at narrow widths
 32770 LD B,2        ; }
 32772 RET           ; Done averyveryveryveryveryveryveryveryveryverylongwordthatwillnotfitanywhere ok
'''
d = tempfile.mkdtemp(); f = os.path.join(d, 't.skool'); open(f, 'w').write(SKOOL)
out = []
asmmod.write_text = lambda s: out.append(s.rstrip('\n'))
warns = []
asmmod.warn = lambda s: warns.append(s)
def fn(ctx):
    del out[:]; del warns[:]
    parser = SkoolParser(f, asm_mode=1)
    w = AsmWriter(parser, {}, {}, get_config('skool2asm'))
    lw = z3.BitVec('lw', W)
    ctx.pc.append(z3.And(lw >= 40, lw <= 200))
    w.line_width = SymInt(lw)
    w.desc_width = w._get_text_width('comment')
    w.table_writer.desc_width = w.desc_width
    w.write()
    return lw, list(out), list(warns)
t = time.time()
res, nq, qt = explore(fn)
print('paths', len(res), 'queries', nq, 'time %.1f' % (time.time() - t))
bad = 0
for ctx, (lw, lines, warns) in res:
    for ln in lines:
        r, m = ctx.check(lw < len(ln))
        if str(r) == 'sat':
            if not warns and len(ln.split()) > 3: bad += 1
print('bad', bad); print(res[0][1][1][:12])
