"""Probe: symbolic numerals through the real Disassembler -> Assembler text path."""
import sys, time, z3, re, builtins
sys.path.insert(0, '/root/scratch')
from symx import *
import symx

# ---- symbolic numerals -------------------------------------------------
TOK = {}      # token text -> (SymInt value, radix)
def new_token(val, radix, minw):
    k = len(TOK)
    # digits-only token, never starting with 0, unique, long enough not to collide with real constants
    if radix == 16:
        t = 'F%07d' % (9000000 - k)        # hex-looking (F.......)
    elif radix == 2:
        t = '1' + format(k, '023b')          # binary-looking, 24 chars
    else:
        t = '9%08d' % k
    TOK[t] = (val, radix)
    return t

def sym_format(self, spec):
    m = re.fullmatch(r'(0?)(\d*)([xXbd]?)', spec)
    assert m, spec
    radix = {'x': 16, 'X': 16, 'b': 2, 'd': 10, '': 10}[m.group(3)]
    # negative values: python renders '-' then digits
    ctx = Ctx.cur
    if ctx.branch(self.e < 0):
        return '-' + new_token(SymInt(-self.e), radix, 0)
    return new_token(self, radix, 0)
SymInt.__format__ = sym_format
SymInt.__str__ = lambda self: sym_format(self, '')
SymInt.__abs__ = lambda self: SymInt(z3.If(self.e < 0, -self.e, self.e))

real_int = builtins.int
class sym_int_meta(type):
    def __instancecheck__(cls, inst):
        return isinstance(inst, real_int)
class sym_int(metaclass=sym_int_meta):
    def __new__(cls, x=0, base=10):
        if isinstance(x, (SymInt,)):
            return x
        if isinstance(x, SymBool):
            return x._i()
        if isinstance(x, str):
            s = x.strip()
            neg = False
            if s[:1] in '+-':
                neg = s[0] == '-'
                s = s[1:]
            if s in TOK:
                val, radix = TOK[s]
                if radix != base:
                    raise RuntimeError('radix mismatch %s parsed as %d' % (x, base))
                return -val if neg else val
            for t in TOK:
                if t in s:
                    raise ValueError('token embedded in non-numeral: ' + x)
        return real_int(x, base) if isinstance(x, str) else real_int(x)

def sym_eval(s, *a):
    env = {}
    def rep(m):
        t = m.group()
        if t in TOK:
            val, radix = TOK[t]
            assert radix == 10, (s, t)
            name = '_t%d' % len(env)
            env[name] = val
            return name
        return t
    s2 = re.sub(r'\d+', rep, s)
    return eval(s2, {'__builtins__': {}}, env)

import skoolkit, skoolkit.z80 as z80mod, skoolkit.disassembler as dismod
z80mod.int = sym_int
z80mod.eval = sym_eval
skoolkit.int = sym_int     # get_int_param lives in skoolkit/__init__

from skoolkit.snaskool import Instruction

class Cfg:
    asm_hex = False; asm_lower = False; defb_size = 8; defm_size = 66; defw_size = 1
    handle_rst = False; imaker = Instruction; opcodes = ''; wrap = False

class Snap:
    """snapshot with concrete overlay + symbolic cells"""
    def __init__(self, cells):
        self.cells = cells
    def __getitem__(self, i):
        if isinstance(i, slice):
            return [self.cells[a] for a in range(i.start, i.stop)]
        return self.cells[i]

def run(opbytes, addr, base, hexmode=False, lower=False):
    def fn(ctx):
        TOK.clear()
        cells = {}
        syms = []
        for k, b in enumerate(opbytes):
            if b is None:
                v = z3.BitVec('op%d' % k, W)
                ctx.pc.append(z3.And(v >= 0, v <= 255))
                b = SymInt(v)
                syms.append(b)
            cells[(addr + k) & 65535] = b
        cfg = Cfg(); cfg.asm_hex = hexmode; cfg.asm_lower = lower
        d = dismod.Disassembler(Snap(cells), cfg)
        ins = d.disassemble(addr, addr + 1, base)[0]
        a = z80mod.Assembler()
        try:
            out = a._assemble(ins.operation, addr) or ()
        except ValueError:
            out = ()
        return ins.operation, ins.bytes, out
    return explore(fn)

for opb, base in [([0x3E, None], 'n'), ([0x3E, None], 'h'), ([0x3E, None], 'b'), ([0x3E, None], 'm'), ([0x21, None, None], 'm'),
                  ([0xDD, 0x36, None, None], 'nm'), ([0xDD, 0x7E, None], 'n'), ([0x18, None], 'n'), ([0xC3, None, None], 'h')]:
    t = time.time()
    res, nq, qt = run(opb, 40000, base)
    bad = 0
    for ctx, (op, orig, out) in res:
        if len(out) != len(orig):
            r, m = ctx.check()
            print('   VIOL (length) op=%r out=%r model=%s' % (op, out, {str(d): m[d] for d in m.decls()}))
            bad += 1
            continue
        neq = z3.Or(*[bv(x) != bv(y) for x, y in zip(orig, out)])
        r, m = ctx.check(neq)
        if str(r) != 'unsat':
            print('   VIOL op=%r %s' % (op, r))
            bad += 1
    print(opb, base, 'paths', len(res), 'bad', bad, '%.2fs' % (time.time() - t), 'sample op:', res[0][1][0])
