import sys, time, z3
sys.path.insert(0, '/root/scratch')
from symx import *
from symtables import load_tables
import skoolkit.simtables as real_tables
import skoolkit.simulator as simmod
import skoolkit.cmiosimulator as cmod

REAL_D48 = list(cmod.DELAYS_48K)

def delay48_expr(t):
    # closed form: pattern 6,5,4,3,2,1,0,0 starting at 14335, 128 T-states per line of 224, 192 lines
    d = t - 14335
    line = z3.UDiv(d, z3.BitVecVal(224, W))
    col = z3.URem(d, z3.BitVecVal(224, W))
    ph = col & 7
    pat = z3.If(ph < 6, 6 - ph, z3.BitVecVal(0, W))
    return z3.If(z3.And(t >= 14335, line < 192, col < 128), pat, z3.BitVecVal(0, W))

class DelayTable:
    def __init__(self, n, f): self.n, self.f = n, f
    def __len__(self): return self.n
    def __getitem__(self, t):
        if isinstance(t, int):
            return REAL_D48[t]
        Ctx.cur.oblig.append(('index', z3.And(t.e >= 0, t.e < self.n)))
        return SymInt(self.f(t.e))

# validate closed form exhaustively (concrete)
t0 = time.time()
tv = z3.BitVec('tv', W)
f = delay48_expr(tv)
import itertools
bad = 0
for t in range(0, 69888):
    d = t - 14335
    exp = 0
    if t >= 14335 and d // 224 < 192 and d % 224 < 128:
        ph = (d % 224) & 7
        exp = 6 - ph if ph < 6 else 0
    if exp != REAL_D48[t]: bad += 1
print('closed-form vs table mismatches', bad, '%.2fs' % (time.time() - t0))

cmod.DELAYS_48K = DelayTable(69888, delay48_expr)
tabs = load_tables('/repo/skoolkit/simtables.py')
simtabs = load_tables('/repo/skoolkit/simulator.py', names={'JR_OFFSETS', 'OFFSETS', 'R1', 'R2'})
for k, v in tabs.items(): setattr(real_tables, k, v)
for k, v in simtabs.items():
    setattr(simmod, k, v); setattr(cmod, k, v)

def mkstate(ctx):
    regs = []
    for i in range(30):
        v = z3.BitVec('r%d' % i, W)
        hi = 255
        if i in (12, 24, 29): hi = 65535
        if i == 25: hi = 2**32
        if i in (26, 28): hi = 1
        if i == 27: hi = 2
        ctx.pc.append(z3.And(v >= 0, v <= hi))
        regs.append(SymInt(v))
    return regs, SymArray('mem', 65536)

def run(cls, opbytes):
    def fn(ctx):
        regs, mem = mkstate(ctx)
        mem0 = mem.arr
        for k, b in enumerate(opbytes):
            ctx.pc.append(z3.Select(mem0, (regs[24].e + k) & 0xFFFF) == b)
        sim = cls.__new__(cls)
        sim.memory = mem
        sim.registers = list(regs)
        sim.frame_duration = 69888
        sim.int_active = 32
        if cls is cmod.CMIOSimulator:
            sim.t0 = 14335 - 23; sim.t1 = 57245
            sim.contend = sim.contend_48k; sim.io_contention = sim.io_contention_48k
        sim.create_opcodes()
        sim.set_tracer(None)
        r0 = list(sim.registers)
        sim.opcodes[opbytes[0]]()
        return r0, mem0, sim.registers, mem.arr
    return explore(fn)

for name, opb in [('ADD A,(HL)', [0x86]), ('LD (nn),HL', [0x22]), ('PUSH BC', [0xC5]), ('INC (HL)', [0x34])]:
    t = time.time()
    res, nq, qt = run(cmod.CMIOSimulator, opb)
    resp, nq2, qt2 = run(simmod.Simulator, opb)
    print(name, 'cmio paths', len(res), 'plain paths', len(resp), 'branch queries', nq, 'qtime %.2f' % qt, 'total %.2f' % (time.time() - t))
    # check T_cmio >= T_plain and other regs equal (except 25, 29) for each pair of compatible paths
    t = time.time()
    nchk = 0
    for ctx, (r0, m0, r1, m1) in res:
        for ctxp, (p0, pm0, p1, pm1) in resp:
            conds = ctx.pc + ctxp.pc
            s = z3.Solver()
            s.add(*conds)
            bad = z3.Or(r1[25].e < p1[25].e, *[r1[i].e != p1[i].e for i in range(30) if i not in (25, 29)], m1 != pm1)
            s.add(bad)
            r = s.check(); nchk += 1
            if str(r) != 'unsat':
                print('  ', r)
    print('   equivalence checks', nchk, '%.2fs' % (time.time() - t))
