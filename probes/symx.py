"""Prototype concolic engine: proxies over z3 bit-vectors, fork by re-execution."""
import z3, time

W = 64

class Abort(BaseException):
    pass

class Ctx:
    cur = None
    def __init__(self):
        self.solver = z3.Solver()
        self.decisions = []   # list of bools for this run (prefix given, extended)
        self.pos = 0
        self.pending = []     # stack of decision prefixes to explore
        self.pc = []          # path condition (z3 bools)
        self.nq = 0
        self.qtime = 0.0
        self.fresh = 0

    def check(self, *extra):
        t = time.time()
        self.solver.push()
        for c in self.pc:
            self.solver.add(c)
        for e in extra:
            self.solver.add(e)
        r = self.solver.check()
        m = self.solver.model() if r == z3.sat else None
        self.solver.pop()
        self.nq += 1
        self.qtime += time.time() - t
        return r, m

    def branch(self, cond):
        """cond: z3 Bool. Returns concrete bool, recording decision."""
        cond = z3.simplify(cond)
        if z3.is_true(cond):
            return True
        if z3.is_false(cond):
            return False
        if self.pos < len(self.decisions):
            d = self.decisions[self.pos]
        else:
            rt, _ = self.check(cond)
            rf, _ = self.check(z3.Not(cond))
            if str(rt) == 'unknown' or str(rf) == 'unknown':
                raise RuntimeError('unknown in branch')
            if rt == z3.sat and rf == z3.sat:
                self.pending.append(self.decisions[:self.pos] + [False])
                d = True
            elif rt == z3.sat:
                d = True
            elif rf == z3.sat:
                d = False
            else:
                raise Abort()  # infeasible path
            self.decisions.append(d)
        self.pos += 1
        self.pc.append(cond if d else z3.Not(cond))
        return d

def bv(v):
    if isinstance(v, SymInt):
        return v.e
    if isinstance(v, SymBool):
        return z3.If(v.e, z3.BitVecVal(1, W), z3.BitVecVal(0, W))
    if isinstance(v, bool):
        return z3.BitVecVal(int(v), W)
    if isinstance(v, int):
        return z3.BitVecVal(v, W)
    raise TypeError(type(v))

def ispow2(n):
    return n > 0 and n & (n - 1) == 0

class SymBool:
    def __init__(self, e):
        self.e = e
    def __bool__(self):
        return Ctx.cur.branch(self.e)
    def _i(self):
        return SymInt(bv(self))
    def __mul__(self, o): return self._i() * o
    __rmul__ = __mul__
    def __add__(self, o): return self._i() + o
    __radd__ = __add__
    def __sub__(self, o): return self._i() - o
    def __rsub__(self, o): return o - self._i()
    def __and__(self, o):
        if isinstance(o, SymBool): return SymBool(z3.And(self.e, o.e))
        return self._i() & o
    def __or__(self, o):
        if isinstance(o, SymBool): return SymBool(z3.Or(self.e, o.e))
        return self._i() | o
    def __index__(self):
        return int(bool(self))
    def __eq__(self, o): return self._i() == o
    def __hash__(self): return id(self)

class SymInt:
    def __init__(self, e):
        self.e = e
    def _b(self, o, f):
        try:
            return SymInt(f(self.e, bv(o)))
        except TypeError:
            return NotImplemented
    def _rb(self, o, f):
        try:
            return SymInt(f(bv(o), self.e))
        except TypeError:
            return NotImplemented
    def __add__(self, o): return self._b(o, lambda a, b: a + b)
    def __radd__(self, o): return self._rb(o, lambda a, b: a + b)
    def __sub__(self, o): return self._b(o, lambda a, b: a - b)
    def __rsub__(self, o): return self._rb(o, lambda a, b: a - b)
    def __mul__(self, o): return self._b(o, lambda a, b: a * b)
    def __rmul__(self, o): return self._rb(o, lambda a, b: a * b)
    def __and__(self, o): return self._b(o, lambda a, b: a & b)
    __rand__ = __and__
    def __or__(self, o): return self._b(o, lambda a, b: a | b)
    __ror__ = __or__
    def __xor__(self, o): return self._b(o, lambda a, b: a ^ b)
    __rxor__ = __xor__
    def __neg__(self): return SymInt(-self.e)
    def __invert__(self): return SymInt(~self.e)
    def __lshift__(self, o): return self._b(o, lambda a, b: a << b)
    def __rlshift__(self, o): return self._rb(o, lambda a, b: a << b)
    def __rshift__(self, o): return self._b(o, lambda a, b: a >> b)  # arithmetic
    def __mod__(self, o):
        if isinstance(o, int) and ispow2(o):
            return SymInt(self.e & (o - 1))
        # python floor mod == bvsmod (sign follows divisor)
        return self._b(o, lambda a, b: z3.SRem(a, b) + z3.If(z3.And(z3.SRem(a, b) != 0, (z3.SRem(a, b) < 0) != (b < 0)), b, z3.BitVecVal(0, W)))
    def __floordiv__(self, o):
        if isinstance(o, int) and ispow2(o):
            return SymInt(self.e >> (o.bit_length() - 1))
        def fd(a, b):
            q = a / b  # signed div truncating
            r = z3.SRem(a, b)
            return q - z3.If(z3.And(r != 0, (r < 0) != (b < 0)), z3.BitVecVal(1, W), z3.BitVecVal(0, W))
        return self._b(o, fd)
    def __lt__(self, o): return SymBool(self.e < bv(o))
    def __le__(self, o): return SymBool(self.e <= bv(o))
    def __gt__(self, o): return SymBool(self.e > bv(o))
    def __ge__(self, o): return SymBool(self.e >= bv(o))
    def __eq__(self, o):
        try:
            return SymBool(self.e == bv(o))
        except TypeError:
            return NotImplemented
    def __ne__(self, o):
        try:
            return SymBool(self.e != bv(o))
        except TypeError:
            return NotImplemented
    def __hash__(self): return id(self)
    def __bool__(self):
        return Ctx.cur.branch(self.e != 0)
    def __index__(self):
        # realise with forking: enumerate feasible values
        ctx = Ctx.cur
        s = z3.simplify(self.e)
        if z3.is_bv_value(s):
            return s.as_signed_long()
        k = 0
        while True:
            r, m = ctx.check()
            assert r == z3.sat
            v = m.eval(self.e, model_completion=True).as_signed_long()
            if ctx.branch(self.e == v):
                return v
            k += 1
            if k > 70000:
                raise RuntimeError('too many')
    def __repr__(self):
        return 'SymInt(%s)' % z3.simplify(self.e)

class SymArray:
    """list-like, symbolic index -> z3 array of BV(W)"""
    def __init__(self, name, length, arr=None, elem_hi=255):
        self.arr = arr if arr is not None else z3.Array(name, z3.BitVecSort(W), z3.BitVecSort(8))
        self.length = length
    def __len__(self):
        return self.length
    def __getitem__(self, i):
        # bounds obligation: 0 <= i < length  (IndexError otherwise; negative wraps in Python!)
        Ctx.cur.oblig.append(('index', z3.And(bv(i) >= 0, bv(i) < self.length)))
        return SymInt(z3.ZeroExt(W - 8, z3.Select(self.arr, bv(i))))
    def __setitem__(self, i, v):
        Ctx.cur.oblig.append(('index', z3.And(bv(i) >= 0, bv(i) < self.length)))
        Ctx.cur.oblig.append(('byte', z3.And(bv(v) >= 0, bv(v) <= 255)))
        self.arr = z3.Store(self.arr, bv(i), z3.Extract(7, 0, bv(v)))

def explore(fn):
    """fn(ctx) runs one path; returns list of results per path"""
    results = []
    pending = [[]]
    total_q = 0
    qtime = 0
    while pending:
        prefix = pending.pop()
        ctx = Ctx()
        ctx.decisions = list(prefix)
        ctx.oblig = []
        Ctx.cur = ctx
        try:
            out = fn(ctx)
            results.append((ctx, out))
        except Abort:
            pass
        pending.extend(ctx.pending)
        total_q += ctx.nq
        qtime += ctx.qtime
    return results, total_q, qtime
