from skoolkit.disassembler import OperandFormatter
from skoolkit.z80 import eval_int

class Cfg:
    def __init__(self, h, l):
        self.asm_hex = h
        self.asm_lower = l

_F = {(h, l): OperandFormatter(Cfg(h, l)) for h in (False, True) for l in (False, True)}

def byte_rt(v: int, h: bool, l: bool, bi: int) -> bool:
    """
    pre: 0 <= v < 256
    pre: 0 <= bi < 5
    post: _
    """
    base = 'bdhmn'[bi]
    return eval_int(_F[(h, l)].format_byte(v, base)) % 256 == v

def hex_rt(v: int) -> bool:
    """
    pre: 0 <= v < 256
    post: _
    """
    return eval_int('${:02X}'.format(v)) == v
