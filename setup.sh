#!/bin/bash
# Offline setup: nothing to build.  The checks run under /venv/bin/python (which has /repo installed in editable
# mode) and import z3 from the pre-installed tooling venv (see lib/bootstrap.py).  This script only verifies that.
set -e
cd "$(dirname "$0")"
/venv/bin/python - <<'PY'
import sys
sys.path.insert(0, 'lib')
import bootstrap, z3, skoolkit
print('z3', z3.get_version_string(), 'skoolkit from', skoolkit.__file__)
PY
mkdir -p evidence replays
