"""Module-namespace shims: names shadowed *in the namespace of a module under test* so that proxies pass where
CPython would otherwise force a concrete value.  Every shim installed is reported by the check that uses it."""
import builtins
from symx import SymInt, SymBool

_real_isinstance = builtins.isinstance


def sym_isinstance(obj, cls):
    if _real_isinstance(obj, (SymInt, SymBool)):
        classes = cls if _real_isinstance(cls, tuple) else (cls,)
        if int in classes:
            return True
        if bool in classes and _real_isinstance(obj, SymBool):
            return True
        return _real_isinstance(obj, cls)
    return _real_isinstance(obj, cls)


def install(module, **names):
    for k, v in names.items():
        setattr(module, k, v)


def install_isinstance(*modules):
    for m in modules:
        m.isinstance = sym_isinstance
