"""List-backed stand-ins for bytes / bytearray / zlib at the C boundary (DESIGN.md 2.1, "container shims").

Installed by name in the namespace of a module under test.  Elements may be symbolic; where CPython's bytearray
would raise for a value outside 0..255, an obligation is recorded instead.  A SymBytes whose elements are all
concrete compares equal to (and hashes like) the real bytes object, so dict keys such as b'RAMP' keep working.
zlib is an opaque, invertible tag: compress(x) = MAGIC + x.
"""
import builtins
import z3
from symx import SymInt, SymBool, Path, bv, rng, HarnessError

_real_bytes = builtins.bytes
_real_bytearray = builtins.bytearray
ZMAGIC = [0x78, 0xDA, 0x5A, 0x4C]


def _elem(x):
    if isinstance(x, SymBool):
        x = x._i()
    if isinstance(x, SymInt):
        if not (x.lo >= 0 and x.hi <= 255):
            Path.cur.obligation('byte-range:bytes()', z3.And(x.e >= 0, x.e <= 255))
        return x
    if isinstance(x, int):
        if not 0 <= x <= 255:
            raise ValueError('byte must be in range(0, 256)')
        return x
    raise TypeError('an integer is required')


class SymBytes(list):
    def __init__(self, src=()):
        if isinstance(src, int) and not isinstance(src, bool):
            super().__init__([0] * src)
        elif isinstance(src, str):
            raise TypeError('string argument without an encoding')
        else:
            super().__init__(_elem(x) for x in src)

    def concrete(self):
        return all(isinstance(x, int) for x in self)

    def real(self):
        return _real_bytes(list(self))

    def __getitem__(self, i):
        r = list.__getitem__(self, i)
        return SymBytes(r) if isinstance(i, slice) else r

    def __setitem__(self, i, v):
        if isinstance(i, slice):
            list.__setitem__(self, i, [_elem(x) for x in v])
        else:
            list.__setitem__(self, i, _elem(v))

    def append(self, v):
        list.append(self, _elem(v))

    def extend(self, it):
        list.extend(self, [_elem(x) for x in it])

    def __add__(self, o):
        return SymBytes(list(self) + list(o))

    def __iadd__(self, o):
        self.extend(o)
        return self

    def __eq__(self, o):
        if isinstance(o, (_real_bytes, _real_bytearray, SymBytes, list, tuple)):
            if len(o) != len(self):
                return False
            res = True
            for a, b in zip(self, o):
                e = a == b
                if isinstance(e, bool):
                    if not e:
                        return False
                else:
                    res = e if res is True else (res & e)
            return res
        return NotImplemented

    def __ne__(self, o):
        r = self.__eq__(o)
        if r is NotImplemented:
            return r
        return (not r) if isinstance(r, bool) else SymBool(z3.Not(r.e))

    def __hash__(self):
        if self.concrete():
            return hash(self.real())
        raise HarnessError('hash of symbolic bytes')

    def startswith(self, p):
        return self[:len(p)] == p

    def __repr__(self):
        return 'SymBytes(%s)' % list.__repr__(self)


def sym_bytes(src=(), *a):
    if isinstance(src, (_real_bytes, _real_bytearray)):
        return _real_bytes(src)
    if isinstance(src, str):
        return _real_bytes(src, *a)
    sb = SymBytes(src)
    if sb.concrete():
        return sb.real()
    return sb


class _BAMeta(type):
    def __instancecheck__(cls, inst):
        return isinstance(inst, (SymBytes, _real_bytearray))


class sym_bytearray(metaclass=_BAMeta):
    def __new__(cls, src=(), *a):
        if isinstance(src, str):
            return SymBytes(_real_bytes(src, *a))
        return SymBytes(src)


class ZlibShim:
    error = Exception

    @staticmethod
    def compress(data, level=9):
        return SymBytes(ZMAGIC + list(data))

    @staticmethod
    def decompress(data):
        data = list(data)
        if data[:4] != ZMAGIC:
            raise HarnessError('zlib shim: not a stream produced by the shim')
        return SymBytes(data[4:])


def install(module, with_zlib=True):
    module.bytes = sym_bytes
    module.bytearray = sym_bytearray
    if with_zlib and hasattr(module, 'zlib'):
        module.zlib = ZlibShim
