"""Shared pieces of the simulator checks (C05, C06, C07, C08, C19): model extraction and concrete replay."""
import z3
import bootstrap  # noqa
import z80ref
import simharness as sh
from symx import W


IO_SLOTS = {('main', 0xD3), ('main', 0xDB)} | {('ED', op) for op in range(0x40, 0x80) if op & 7 in (0, 1)} | \
    {('ED', op) for op in (0xA2, 0xA3, 0xAA, 0xAB, 0xB2, 0xB3, 0xBA, 0xBB)}

_M = {}


def get_machine(cls_name, mach, tracer):
    """cached Machine (real simulator instance with symbolic state) per configuration, per worker process"""
    key = (cls_name, mach, tracer)
    if key not in _M:
        import skoolkit.simulator as sm
        import skoolkit.cmiosimulator as cm
        if cls_name == 'CMIOSimulator-rec':
            # the contended simulator with contend() replaced by a recorder that returns a fresh delay >= 0: the closures'
            # own effects are what is examined; the contention arithmetic itself is C19's subject
            from symx import sym_int

            class Rec(cm.CMIOSimulator):
                ncalls = 0

                def _rec(self, t, timings):
                    Rec.ncalls += 1
                    return sym_int('delay%d' % Rec.ncalls, 0, 6 * len(timings))

                def contend_48k(self, t, timings):
                    return self._rec(t, timings)

                def contend_128k(self, t, timings):
                    return self._rec(t, timings)
            cls = Rec
        else:
            cls = {'Simulator': sm.Simulator, 'CMIOSimulator': cm.CMIOSimulator}[cls_name]
        _M[key] = sh.Machine(cls, mach, sh.Tracer() if tracer else None)
    return _M[key]


def model_state(m, machine):
    """concrete pre-state from a z3 model: (regs[30], {'default': d, addr: byte...}, [port inputs])"""
    regs = [m.eval(r, model_completion=True).as_long() for r in machine.regs0]
    arr = m.eval(machine.mem0, model_completion=True)
    vals = []
    for a in range(65536):
        v = z3.simplify(z3.Select(arr, z3.BitVecVal(a, 16)))
        if not z3.is_bv_value(v):
            v = m.eval(z3.Select(machine.mem0, z3.BitVecVal(a, 16)), model_completion=True)
        vals.append(v.as_long())
    import collections
    default = collections.Counter(vals).most_common(1)[0][0]
    mem = {a: v for a, v in enumerate(vals) if v != default}
    mem['default'] = default
    inputs = []
    if machine.tracer:
        inputs = [m.eval(i.e, model_completion=True).as_long() for i in machine.tracer.inputs]
    return regs, mem, inputs


def mem_from_case(mem):
    """JSON round trip turns int keys into strings -> ({addr: byte}, default)"""
    d = dict(mem)
    default = d.pop('default', 0)
    return {int(a): v for a, v in d.items()}, default


def mem_list(mem, default=0, size=65536):
    memory = [default] * size
    for a, v in mem.items():
        memory[a] = v
    return memory


def concrete_ref(slot, regs, mem, machine='48K', tracer=False, port_value=255, default=0):
    """evaluate the reference model on a concrete state -> (regs[30], changed {addr: byte}, fmask, reads, writes)"""
    r = [z3.BitVecVal(v, W) for v in regs]
    arr = z3.K(z3.BitVecSort(16), z3.BitVecVal(default, 8))
    for a, v in mem.items():
        arr = z3.Store(arr, z3.BitVecVal(a, 16), z3.BitVecVal(v, 8))
    env = z80ref.Env(sh.MACHINES[machine]['frame'], sh.MACHINES[machine]['int_active'], tracer, z3.BitVecVal(port_value, 8))
    if slot == 'interrupt':
        s = z80ref.accept_interrupt(r, arr, env)
    else:
        s = z80ref.step(tuple(slot), r, arr, env)
    out = [z3.simplify(x).as_long() for x in s.r]
    fmask = z3.simplify(s.fmask_expr).as_long()
    post = {}
    memterm = z3.simplify(s.mem)
    # collect every address the reference may have written: walk candidate addresses = those whose value differs
    for a in candidate_addresses(out, regs, mem, default):
        v = z3.simplify(z3.Select(memterm, z3.BitVecVal(a, 16))).as_long()
        post[a] = v
    reads = [z3.simplify(p).as_long() for p in s.reads]
    writes = [(z3.simplify(p).as_long(), z3.simplify(v).as_long()) for p, v in s.writes]
    return out, post, fmask, reads, writes


def candidate_addresses(post_regs, regs, mem, default=0):
    """addresses a single instruction can have written, generously: around every 16-bit quantity in the state"""
    c = set(mem)
    vals = set()
    for rs in (regs, post_regs):
        for hi, lo in ((2, 3), (4, 5), (6, 7), (8, 9), (10, 11)):
            vals.add(rs[lo] + 256 * rs[hi])
        vals.add(rs[12]); vals.add(rs[24])
    for a in list(mem):
        vals.add(mem.get(a, default) + 256 * mem.get((a + 1) & 0xFFFF, default))
    vals.add(default * 257)
    for k in (1, 2, 3):
        a = (regs[24] + k) & 0xFFFF
        vals.add(mem.get(a, default) + 256 * mem.get((a + 1) & 0xFFFF, default))
    for v in vals:
        for d in range(-130, 131):
            c.add((v + d) & 0xFFFF)
    return c


def run_real(cls_name, slot, regs, mem, machine='48K', inputs=(), tracer=False, config=None, default=0):
    """run the real (unpatched) simulator class on a concrete state -> (regs, memory list, events)"""
    import skoolkit.simulator as sm
    import skoolkit.cmiosimulator as cm
    cls = {'Simulator': sm.Simulator, 'CMIOSimulator': cm.CMIOSimulator, 'CMIOSimulator-rec': cm.CMIOSimulator}[cls_name]
    memory = mem_list(mem, default)
    m = sh.MACHINES[machine]
    cfg = {'frame_duration': m['frame'], 'int_active': m['int_active']}
    if config:
        cfg.update(config)
    sim = cls(memory, config=cfg)
    sim.registers[:] = list(regs)
    events = []
    if tracer:
        ins = list(inputs)

        class Tr:
            def read_port(self, registers, port):
                events.append(('in', port))
                return ins.pop(0) if ins else 255

            def write_port(self, registers, port, value, offset):
                events.append(('out', port, value, offset))
        sim.set_tracer(Tr())
    if slot == 'interrupt':
        sim.accept_interrupt(sim.registers, sim.memory, None)
    else:
        sim.opcodes[memory[regs[24]]]()
    return list(sim.registers), memory, events
