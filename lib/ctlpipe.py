"""memory + control file -> skool text (real CtlParser + SkoolWriter); skool text -> control file (real skool2ctl CtlWriter)."""
import os
import re
import shutil
import tempfile


class Opt:
    pass


class Pipe:
    def __init__(self):
        self.dir = tempfile.mkdtemp(prefix='skverif_c03_')
        self.n = 0

    def close(self):
        shutil.rmtree(self.dir, ignore_errors=True)

    def _file(self, text, ext):
        self.n += 1
        f = os.path.join(self.dir, 't%d.%s' % (self.n % 6, ext))
        with open(f, 'w') as fh:
            fh.write(text)
        return f

    def skool_from_ctl(self, snap, ctl_lines, start, end, base=10, case=0, sizes=(8, 65, 1), opcodes=''):
        import skoolkit.snaskool as ss
        import skoolkit.ctlparser as cp
        from skoolkit.config import get_config
        parser = cp.CtlParser()
        parser.parse_ctls([self._file('\n'.join(ctl_lines) + '\n', 'ctl')], start, end)
        o = Opt()
        o.comments, o.line_width, o.base, o.case = False, 79, base, case
        cfg = get_config('sna2skool')
        cfg.update(ListRefs=0, DefbSize=sizes[0], DefmSize=sizes[1], DefwSize=sizes[2], Opcodes=opcodes)
        out = []
        ss.write_line = out.append
        ss.SkoolWriter(snap, parser, o, cfg).write_skool()
        return out

    def ctl_from_skool(self, skool_lines, write_hex=0, keep_lines=0):
        import skoolkit.skoolctl as sc
        out = []
        sc.write_line = out.append
        sc.CtlWriter(self._file('\n'.join(skool_lines) + '\n', 'skool'), 'abtdrmscn', write_hex, True, 0, 65536, keep_lines).write()
        return out


def canon(text, token_value, char_value):
    """-> (text with numeral tokens and symbolic characters replaced by placeholders, [their values in order])"""
    vals = []

    def rep(m):
        v = token_value(m.group())
        if v is None:
            return m.group()
        vals.append(v)
        return '#'
    t = re.sub(r'[0-9A-Fa-f]{8,}', rep, text)
    out = []
    for ch in t:
        v = char_value(ch)
        if v is not None:
            vals.append(v)
            out.append('�')
        else:
            out.append(ch)
    return ''.join(out), vals
