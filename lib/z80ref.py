"""Reference model of the Z80 instruction set as z3 terms (DESIGN.md section 3.1).

Written from the Zilog Z80 CPU User Manual and Sean Young's "The Undocumented Z80
Documented", not from skoolkit's code.  `step(slot, pre, env)` returns the post-state
of executing the instruction selected by `slot` from the symbolic pre-state, as one
if-then-else term per component (no path splitting).

Register file layout is skoolkit's (simutils): 0 A 1 F 2 B 3 C 4 D 5 E 6 H 7 L 8 IXh 9 IXl
10 IYh 11 IYl 12 SP 13 (always 0) 14 I 15 R 16-23 shadow A F B C D E H L 24 PC 25 T
26 IFF 27 IM 28 HALT 29 MEMPTR.  All components are 64-bit terms.

Emulator conventions that are not instruction-set facts are stated explicitly and
collected in CONVENTIONS; they are assumptions of the claim.
"""
import z3

W = 64
A, F, B, C, D, E, H, L, IXH, IXL, IYH, IYL, SP, SP2, I, R = range(16)
PC, T, IFF, IM, HALT, MEMPTR = 24, 25, 26, 27, 28, 29

CONVENTIONS = [
    'HALT is a 4 T-state step that leaves PC on the HALT opcode (HALT state 1) unless IFF is set and the '
    'clock is inside the interrupt-active window of the frame, in which case PC advances and HALT state is 0',
    'LD A,I / LD A,R copy IFF to P/V except when an interrupt is about to be accepted (IFF set and the clock '
    'after the instruction inside the interrupt-active window), when P/V is 0',
    'a single interrupt flip-flop is modelled: EI/DI set/clear it, RETN/RETI leave it unchanged',
    'IN returns 255 (191 for INI/IND/INIR/INDR) when no port tracer is attached',
    'a DD/FD prefix before an opcode it does not affect (incl. another DD/FD/ED) is a 1-byte, 4 T-state step with R+1',
    'undefined ED opcodes are 2-byte, 8 T-state no-ops with R+2',
    'R is incremented once per M1 cycle: 1 for unprefixed opcodes, 2 for CB/ED/DD/FD/DDCB/FDCB forms; bit 7 is kept',
    'INI/IND/OUTI/OUTD flags follow Young (S Z from B, N = bit 7 of the data, H = C = carry of data + ((C+-1)&255 | L), '
    'P/V = parity((k & 7) ^ B)); while INIR/INDR/OTIR/OTDR repeat only S Z N C are compared',
    'repeating block instructions are executed one iteration per step (PC unchanged while repeating)',
]

# flag masks compared for C05: documented flags only (bits 5 and 3 excluded)
DOC = 0xD7


def b8(x):
    return z3.BitVecVal(x, 8)


def b16(x):
    return z3.BitVecVal(x, 16)


def zx(x, w=W):
    return z3.ZeroExt(w - x.size(), x) if x.size() < w else x


def bit(x, n):
    return z3.Extract(n, n, x)


def parity8(x):
    p = bit(x, 0)
    for i in range(1, 8):
        p = p ^ bit(x, i)
    return ~p       # 1 when even


def flags(s, z, h, pv, n, c, f5=None, f3=None):
    """pack single-bit terms into an 8-bit F"""
    z1 = z3.BitVecVal(0, 1)
    return z3.Concat(s, z, f5 if f5 is not None else z1, h, f3 if f3 is not None else z1, pv, n, c)


def bool1(b):
    return z3.If(b, z3.BitVecVal(1, 1), z3.BitVecVal(0, 1))


ONE = z3.BitVecVal(1, 1)
ZERO = z3.BitVecVal(0, 1)


def add8(a, b, cin):
    """(result, F) of a + b + cin"""
    s9 = z3.ZeroExt(1, a) + z3.ZeroExt(1, b) + z3.ZeroExt(8, cin)
    res = z3.Extract(7, 0, s9)
    h5 = z3.ZeroExt(1, z3.Extract(3, 0, a)) + z3.ZeroExt(1, z3.Extract(3, 0, b)) + z3.ZeroExt(4, cin)
    ov = (~(bit(a, 7) ^ bit(b, 7))) & (bit(a, 7) ^ bit(res, 7))
    return res, flags(bit(res, 7), bool1(res == 0), bit(h5, 4), ov, ZERO, bit(s9, 8), bit(res, 5), bit(res, 3))


def sub8(a, b, cin):
    """(result, F) of a - b - cin"""
    s9 = z3.ZeroExt(1, a) - z3.ZeroExt(1, b) - z3.ZeroExt(8, cin)
    res = z3.Extract(7, 0, s9)
    h5 = z3.ZeroExt(1, z3.Extract(3, 0, a)) - z3.ZeroExt(1, z3.Extract(3, 0, b)) - z3.ZeroExt(4, cin)
    ov = (bit(a, 7) ^ bit(b, 7)) & (bit(a, 7) ^ bit(res, 7))
    return res, flags(bit(res, 7), bool1(res == 0), bit(h5, 4), ov, ONE, bit(s9, 8), bit(res, 5), bit(res, 3))


def logic8(op, a, b):
    res = {'and': a & b, 'or': a | b, 'xor': a ^ b}[op]
    return res, flags(bit(res, 7), bool1(res == 0), ONE if op == 'and' else ZERO, parity8(res), ZERO, ZERO, bit(res, 5), bit(res, 3))


def szp(res, h, n, c):
    return flags(bit(res, 7), bool1(res == 0), h, parity8(res), n, c, bit(res, 5), bit(res, 3))


def inc8(v, f):
    res = v + 1
    return res, flags(bit(res, 7), bool1(res == 0), bool1(z3.Extract(3, 0, v) == 0xF), bool1(v == 0x7F), ZERO, bit(f, 0), bit(res, 5), bit(res, 3))


def dec8(v, f):
    res = v - 1
    return res, flags(bit(res, 7), bool1(res == 0), bool1(z3.Extract(3, 0, v) == 0), bool1(v == 0x80), ONE, bit(f, 0), bit(res, 5), bit(res, 3))


def rot(kind, v, f):
    """CB-group rotate/shift: (result, F)"""
    cin = bit(f, 0)
    if kind == 'RLC':
        res, c = z3.Concat(z3.Extract(6, 0, v), bit(v, 7)), bit(v, 7)
    elif kind == 'RRC':
        res, c = z3.Concat(bit(v, 0), z3.Extract(7, 1, v)), bit(v, 0)
    elif kind == 'RL':
        res, c = z3.Concat(z3.Extract(6, 0, v), cin), bit(v, 7)
    elif kind == 'RR':
        res, c = z3.Concat(cin, z3.Extract(7, 1, v)), bit(v, 0)
    elif kind == 'SLA':
        res, c = z3.Concat(z3.Extract(6, 0, v), ZERO), bit(v, 7)
    elif kind == 'SRA':
        res, c = z3.Concat(bit(v, 7), z3.Extract(7, 1, v)), bit(v, 0)
    elif kind == 'SLL':
        res, c = z3.Concat(z3.Extract(6, 0, v), ONE), bit(v, 7)
    elif kind == 'SRL':
        res, c = z3.Concat(ZERO, z3.Extract(7, 1, v)), bit(v, 0)
    else:
        raise ValueError(kind)
    return res, szp(res, ZERO, ZERO, c)


ROTS = ('RLC', 'RRC', 'RL', 'RR', 'SLA', 'SRA', 'SLL', 'SRL')


def rot_a(kind, a, f):
    """RLCA/RRCA/RLA/RRA: S Z P/V preserved, H N reset"""
    res, fl = rot(kind, a, f)
    return res, flags(bit(f, 7), bit(f, 6), ZERO, bit(f, 2), ZERO, bit(fl, 0), bit(res, 5), bit(res, 3))


def daa(a, f):
    n, h, c = bit(f, 1), bit(f, 4), bit(f, 0)
    lo = z3.Extract(3, 0, a)
    lo_adj = z3.Or(h == 1, z3.UGT(lo, 9))
    hi_adj = z3.Or(c == 1, z3.UGT(a, 0x99))
    corr = z3.If(lo_adj, b8(6), b8(0)) + z3.If(hi_adj, b8(0x60), b8(0))
    res = z3.If(n == 1, a - corr, a + corr)
    cf = bool1(hi_adj)
    hf = z3.If(n == 1, bool1(z3.And(h == 1, z3.ULT(lo, 6))), bool1(z3.UGT(lo, 9)))
    return res, szp(res, hf, n, cf)


def add16(a, b, f):
    """ADD HL,rr: S Z P/V preserved"""
    s17 = z3.ZeroExt(1, a) + z3.ZeroExt(1, b)
    res = z3.Extract(15, 0, s17)
    h13 = z3.ZeroExt(1, z3.Extract(11, 0, a)) + z3.ZeroExt(1, z3.Extract(11, 0, b))
    return res, flags(bit(f, 7), bit(f, 6), bit(h13, 12), bit(f, 2), ZERO, bit(s17, 16), bit(res, 13), bit(res, 11))


def adc16(a, b, cin):
    s17 = z3.ZeroExt(1, a) + z3.ZeroExt(1, b) + z3.ZeroExt(16, cin)
    res = z3.Extract(15, 0, s17)
    h13 = z3.ZeroExt(1, z3.Extract(11, 0, a)) + z3.ZeroExt(1, z3.Extract(11, 0, b)) + z3.ZeroExt(12, cin)
    ov = (~(bit(a, 15) ^ bit(b, 15))) & (bit(a, 15) ^ bit(res, 15))
    return res, flags(bit(res, 15), bool1(res == 0), bit(h13, 12), ov, ZERO, bit(s17, 16), bit(res, 13), bit(res, 11))


def sbc16(a, b, cin):
    s17 = z3.ZeroExt(1, a) - z3.ZeroExt(1, b) - z3.ZeroExt(16, cin)
    res = z3.Extract(15, 0, s17)
    h13 = z3.ZeroExt(1, z3.Extract(11, 0, a)) - z3.ZeroExt(1, z3.Extract(11, 0, b)) - z3.ZeroExt(12, cin)
    ov = (bit(a, 15) ^ bit(b, 15)) & (bit(a, 15) ^ bit(res, 15))
    return res, flags(bit(res, 15), bool1(res == 0), bit(h13, 12), ov, ONE, bit(s17, 16), bit(res, 13), bit(res, 11))


# ---------------------------------------------------------------------------
class Env:
    """environment of one step: machine constants and port input"""

    def __init__(self, frame_duration=69888, int_active=32, tracer=False, port_value=None):
        self.frame_duration = frame_duration
        self.int_active = int_active
        self.tracer = tracer             # a port tracer is attached
        self.port_value = port_value     # 8-bit term returned by the tracer's read_port


class St:
    """mutable working copy of a state"""

    def __init__(self, regs, mem):
        self.r = list(regs)       # 30 x BV64
        self.mem = mem            # Array BV16 -> BV8
        self.reads = []           # port reads  (port16)
        self.writes = []          # port writes (port16, value8)
        self.fmask_expr = b8(DOC) # which F bits this instruction's reference defines

    def g8(self, i):
        return z3.Extract(7, 0, self.r[i])

    def s8(self, i, v):
        self.r[i] = zx(v)

    def g16(self, hi, lo):
        return z3.Concat(self.g8(hi), self.g8(lo))

    def s16(self, hi, lo, v):
        self.s8(hi, z3.Extract(15, 8, v))
        self.s8(lo, z3.Extract(7, 0, v))

    def pc(self):
        return z3.Extract(15, 0, self.r[PC])

    def sp(self):
        return z3.Extract(15, 0, self.r[SP])

    def rd(self, addr):
        return z3.Select(self.mem, addr)

    def rd16(self, addr):
        return z3.Concat(self.rd(addr + 1), self.rd(addr))

    def wr(self, addr, v):
        # ROM (0x0000-0x3FFF) is not writable
        self.mem = z3.If(z3.UGT(addr, 0x3FFF), z3.Store(self.mem, addr, v), self.mem)

    def wr16(self, addr, v):
        self.wr(addr, z3.Extract(7, 0, v))
        self.wr(addr + 1, z3.Extract(15, 8, v))

    def push(self, v):
        sp = self.sp() - 2
        self.r[SP] = zx(sp)
        self.wr16(sp, v)

    def pop(self):
        sp = self.sp()
        v = self.rd16(sp)
        self.r[SP] = zx(sp + 2)
        return v

    def setpc(self, v):
        self.r[PC] = zx(v)

    def adv(self, n):
        self.r[PC] = zx(self.pc() + n)

    def tick(self, n):
        self.r[T] = self.r[T] + (n if z3.is_expr(n) else z3.BitVecVal(n, W))

    def inc_r(self, n):
        r = self.g8(R)
        self.s8(R, z3.Concat(bit(r, 7), z3.Extract(6, 0, r) + n))


def cond(cc, f):
    """condition code 0..7: NZ Z NC C PO PE P M"""
    fbit = (6, 6, 0, 0, 2, 2, 7, 7)[cc]
    want = cc & 1
    return bit(f, fbit) == want


class Regs:
    """register naming for a given index prefix (None, 'IX', 'IY')"""

    def __init__(self, prefix):
        self.prefix = prefix
        if prefix == 'IX':
            self.h, self.l = IXH, IXL
        elif prefix == 'IY':
            self.h, self.l = IYH, IYL
        else:
            self.h, self.l = H, L

    def r8(self, n, plain=False):
        """register index for r[n], n != 6"""
        t = (B, C, D, E, H, L, None, A)
        if n == 4 and not plain:
            return self.h
        if n == 5 and not plain:
            return self.l
        return t[n]


def in_window(t_after, env):
    if hasattr(env, 'mod_frame'):
        # the harness supplies t mod frame (quotient/remainder encoding instead of a 64-bit division circuit)
        return z3.ULT(env.mod_frame(t_after), z3.BitVecVal(env.int_active, W))
    fd = z3.BitVecVal(env.frame_duration, W)
    return z3.ULT(z3.URem(t_after, fd), z3.BitVecVal(env.int_active, W))


def uses_index(op):
    """does a DD/FD prefix change the meaning of main-table opcode `op`?"""
    x, y, z = op >> 6, (op >> 3) & 7, op & 7
    p, q = y >> 1, y & 1
    if x == 0:
        if z == 1:
            return (q == 0 and p == 2) or q == 1
        if z == 2:
            return p == 2
        if z == 3:
            return p == 2
        if z in (4, 5, 6):
            return y in (4, 5, 6)
        return False
    if x == 1:
        if op == 0x76:
            return False
        return y in (4, 5, 6) or z in (4, 5, 6)
    if x == 2:
        return z in (4, 5, 6)
    # x == 3
    return op in (0xE1, 0xE3, 0xE5, 0xE9, 0xF9, 0xCB)


def step(slot, regs, mem, env):
    """slot: (table, opcode) with table in main CB ED DD FD DDCB FDCB.  -> St (post-state)"""
    table, op = slot
    s = St(regs, mem)
    if table == 'main':
        _main(s, op, None, env)
    elif table in ('DD', 'FD'):
        if op == 0xCB or uses_index(op):
            _main(s, op, 'IX' if table == 'DD' else 'IY', env)
        else:
            # convention: prefix is a 1-byte 4 T-state step
            s.inc_r(1); s.tick(4); s.adv(1)
    elif table == 'CB':
        _cb(s, op, None)
    elif table in ('DDCB', 'FDCB'):
        _cb(s, op, 'IX' if table == 'DDCB' else 'IY')
    elif table == 'ED':
        _ed(s, op, env)
    else:
        raise ValueError(table)
    return s


def _main(s, op, prefix, env):
    """unprefixed instruction, or its DD/FD variant; PC points at the first byte (the prefix if any)"""
    rg = Regs(prefix)
    pl = 1 if prefix else 0           # prefix length
    x, y, z = op >> 6, (op >> 3) & 7, op & 7
    p, q = y >> 1, y & 1
    pc = s.pc()
    f = s.g8(F)
    a = s.g8(A)
    s.inc_r(1 + pl)
    T4 = 4 * pl                        # extra M1 cycle for the prefix

    def imm8(k=1):
        return s.rd(pc + (pl + k))

    def imm16():
        return s.rd16(pc + (pl + 1))

    def idx_addr():
        d = s.rd(pc + 2)
        return s.g16(rg.h, rg.l) + z3.SignExt(8, d)

    rp = [(B, C), (D, E), (rg.h, rg.l), None]

    def get_rp(i):
        if i == 3:
            return s.sp()
        return s.g16(*rp[i])

    def set_rp(i, v):
        if i == 3:
            s.r[SP] = zx(v)
        else:
            s.s16(rp[i][0], rp[i][1], v)

    if x == 0:
        if z == 0:
            if y == 0:                                       # NOP
                s.tick(4); s.adv(1)
            elif y == 1:                                     # EX AF,AF'
                s.r[A], s.r[16] = s.r[16], s.r[A]
                s.r[F], s.r[17] = s.r[17], s.r[F]
                s.tick(4); s.adv(1)
            elif y == 2:                                     # DJNZ d
                b = s.g8(B) - 1
                s.s8(B, b)
                taken = b != 0
                d = z3.SignExt(8, imm8())
                s.setpc(z3.If(taken, pc + 2 + d, pc + 2))
                s.tick(z3.If(taken, z3.BitVecVal(13, W), z3.BitVecVal(8, W)))
            else:                                            # JR d / JR cc,d
                taken = z3.BoolVal(True) if y == 3 else cond(y - 4, f)
                d = z3.SignExt(8, imm8())
                s.setpc(z3.If(taken, pc + 2 + d, pc + 2))
                s.tick(z3.If(taken, z3.BitVecVal(12, W), z3.BitVecVal(7, W)))
        elif z == 1:
            if q == 0:                                       # LD rp,nn
                set_rp(p, imm16())
                s.tick(10 + T4); s.adv(3 + pl)
            else:                                            # ADD HL,rp
                res, fl = add16(s.g16(rg.h, rg.l), get_rp(p), f)
                s.s16(rg.h, rg.l, res); s.s8(F, fl)
                s.tick(11 + T4); s.adv(1 + pl)
        elif z == 2:
            if p == 0 or p == 1:
                addr = s.g16(*rp[p])
                if q == 0:                                   # LD (BC/DE),A
                    s.wr(addr, a)
                else:                                        # LD A,(BC/DE)
                    s.s8(A, s.rd(addr))
                s.tick(7); s.adv(1)
            elif p == 2:
                addr = imm16()
                if q == 0:                                   # LD (nn),HL
                    s.wr16(addr, s.g16(rg.h, rg.l))
                else:                                        # LD HL,(nn)
                    s.s16(rg.h, rg.l, s.rd16(addr))
                s.tick(16 + T4); s.adv(3 + pl)
            else:
                addr = imm16()
                if q == 0:                                   # LD (nn),A
                    s.wr(addr, a)
                else:                                        # LD A,(nn)
                    s.s8(A, s.rd(addr))
                s.tick(13); s.adv(3)
        elif z == 3:                                         # INC/DEC rp
            v = get_rp(p)
            set_rp(p, v + 1 if q == 0 else v - 1)
            s.tick(6 + T4); s.adv(1 + pl)
        elif z in (4, 5):                                    # INC/DEC r
            fn = inc8 if z == 4 else dec8
            if y == 6:
                if prefix:
                    addr = idx_addr()
                    res, fl = fn(s.rd(addr), f)
                    s.wr(addr, res); s.s8(F, fl)
                    s.tick(23); s.adv(3)
                else:
                    addr = s.g16(H, L)
                    res, fl = fn(s.rd(addr), f)
                    s.wr(addr, res); s.s8(F, fl)
                    s.tick(11); s.adv(1)
            else:
                r = rg.r8(y)
                res, fl = fn(s.g8(r), f)
                s.s8(r, res); s.s8(F, fl)
                s.tick(4 + T4); s.adv(1 + pl)
        elif z == 6:                                         # LD r,n
            if y == 6:
                if prefix:
                    addr = idx_addr()
                    s.wr(addr, s.rd(pc + 3))
                    s.tick(19); s.adv(4)
                else:
                    s.wr(s.g16(H, L), imm8())
                    s.tick(10); s.adv(2)
            else:
                s.s8(rg.r8(y), imm8())
                s.tick(7 + T4); s.adv(2 + pl)
        else:  # z == 7
            if y < 4:                                        # RLCA RRCA RLA RRA
                res, fl = rot_a(('RLC', 'RRC', 'RL', 'RR')[y], a, f)
                s.s8(A, res); s.s8(F, fl)
            elif y == 4:                                     # DAA
                res, fl = daa(a, f)
                s.s8(A, res); s.s8(F, fl)
            elif y == 5:                                     # CPL
                res = ~a
                s.s8(A, res)
                s.s8(F, flags(bit(f, 7), bit(f, 6), ONE, bit(f, 2), ONE, bit(f, 0), bit(res, 5), bit(res, 3)))
            elif y == 6:                                     # SCF
                s.s8(F, flags(bit(f, 7), bit(f, 6), ZERO, bit(f, 2), ZERO, ONE))
            else:                                            # CCF
                s.s8(F, flags(bit(f, 7), bit(f, 6), bit(f, 0), bit(f, 2), ZERO, ~bit(f, 0)))
            s.tick(4); s.adv(1)
    elif x == 1:
        if op == 0x76:                                       # HALT (convention)
            t_after = s.r[T] + 4
            s.tick(4)
            wake = z3.And(s.r[IFF] != 0, in_window(t_after, env))
            s.setpc(z3.If(wake, pc + 1, pc))
            s.r[HALT] = z3.If(wake, z3.BitVecVal(0, W), z3.BitVecVal(1, W))
        elif y == 6:                                         # LD (HL),r / LD (IX+d),r
            if prefix:
                s.wr(idx_addr(), s.g8(rg.r8(z, plain=True)))
                s.tick(19); s.adv(3)
            else:
                s.wr(s.g16(H, L), s.g8(rg.r8(z)))
                s.tick(7); s.adv(1)
        elif z == 6:                                         # LD r,(HL) / LD r,(IX+d)
            if prefix:
                s.s8(rg.r8(y, plain=True), s.rd(idx_addr()))
                s.tick(19); s.adv(3)
            else:
                s.s8(rg.r8(y), s.rd(s.g16(H, L)))
                s.tick(7); s.adv(1)
        else:                                                # LD r,r'
            s.s8(rg.r8(y), s.g8(rg.r8(z)))
            s.tick(4 + T4); s.adv(1 + pl)
    elif x == 2 or (x == 3 and z == 6):                      # ALU A,r / ALU A,n
        if x == 3:
            v = imm8()
            s.tick(7); s.adv(2)
        elif z == 6:
            if prefix:
                v = s.rd(idx_addr())
                s.tick(19); s.adv(3)
            else:
                v = s.rd(s.g16(H, L))
                s.tick(7); s.adv(1)
        else:
            v = s.g8(rg.r8(z))
            s.tick(4 + T4); s.adv(1 + pl)
        _alu(s, y, a, v, f)
    else:  # x == 3
        if z == 0:                                           # RET cc
            taken = cond(y, f)
            ret = s.rd16(s.sp())
            s.r[SP] = z3.If(taken, zx(s.sp() + 2), s.r[SP])
            s.setpc(z3.If(taken, ret, pc + 1))
            s.tick(z3.If(taken, z3.BitVecVal(11, W), z3.BitVecVal(5, W)))
        elif z == 1:
            if q == 0:                                       # POP rp2
                v = s.pop()
                if p == 3:
                    s.s16(A, F, v)
                else:
                    s.s16(rp[p][0], rp[p][1], v)
                s.tick(10 + T4); s.adv(1 + pl)
            elif p == 0:                                     # RET
                s.setpc(s.pop()); s.tick(10)
            elif p == 1:                                     # EXX
                for i in range(2, 8):
                    s.r[i], s.r[i + 16] = s.r[i + 16], s.r[i]
                s.tick(4); s.adv(1)
            elif p == 2:                                     # JP (HL)
                s.setpc(s.g16(rg.h, rg.l)); s.tick(4 + T4)
            else:                                            # LD SP,HL
                s.r[SP] = zx(s.g16(rg.h, rg.l))
                s.tick(6 + T4); s.adv(1 + pl)
        elif z == 2:                                         # JP cc,nn
            s.setpc(z3.If(cond(y, f), imm16(), pc + 3)); s.tick(10)
        elif z == 3:
            if y == 0:                                       # JP nn
                s.setpc(imm16()); s.tick(10)
            elif y == 1:
                raise ValueError('CB prefix is not an instruction')
            elif y == 2:                                     # OUT (n),A
                s.writes.append((z3.Concat(a, imm8()), a))
                s.tick(11); s.adv(2)
            elif y == 3:                                     # IN A,(n)
                s.reads.append(z3.Concat(a, imm8()))
                s.s8(A, env.port_value if env.tracer else b8(255))
                s.tick(11); s.adv(2)
            elif y == 4:                                     # EX (SP),HL
                sp = s.sp()
                v = s.rd16(sp)
                s.wr16(sp, s.g16(rg.h, rg.l))
                s.s16(rg.h, rg.l, v)
                s.tick(19 + T4); s.adv(1 + pl)
            elif y == 5:                                     # EX DE,HL
                s.r[D], s.r[H] = s.r[H], s.r[D]
                s.r[E], s.r[L] = s.r[L], s.r[E]
                s.tick(4); s.adv(1)
            else:                                            # DI / EI
                s.r[IFF] = z3.BitVecVal(1 if y == 7 else 0, W)
                s.tick(4); s.adv(1)
        elif z == 4:                                         # CALL cc,nn
            taken = cond(y, f)
            _call_if(s, taken, imm16(), pc + 3)
        elif z == 5:
            if q == 0:                                       # PUSH rp2
                v = s.g16(A, F) if p == 3 else s.g16(*rp[p])
                s.push(v)
                s.tick(11 + T4); s.adv(1 + pl)
            elif p == 0:                                     # CALL nn
                _call_if(s, z3.BoolVal(True), imm16(), pc + 3)
            else:
                raise ValueError('prefix is not an instruction')
        else:  # z == 7: RST
            s.push(pc + 1)
            s.setpc(b16(y * 8)); s.tick(11)


def _call_if(s, taken, target, ret):
    sp2 = s.sp() - 2
    mem_t = St(s.r, s.mem)
    mem_t.wr16(sp2, ret)
    s.mem = z3.If(taken, mem_t.mem, s.mem)
    s.r[SP] = z3.If(taken, zx(sp2), s.r[SP])
    s.setpc(z3.If(taken, target, ret))
    s.tick(z3.If(taken, z3.BitVecVal(17, W), z3.BitVecVal(10, W)))


def _alu(s, y, a, v, f):
    if y == 0:
        res, fl = add8(a, v, ZERO)
    elif y == 1:
        res, fl = add8(a, v, bit(f, 0))
    elif y == 2:
        res, fl = sub8(a, v, ZERO)
    elif y == 3:
        res, fl = sub8(a, v, bit(f, 0))
    elif y == 4:
        res, fl = logic8('and', a, v)
    elif y == 5:
        res, fl = logic8('xor', a, v)
    elif y == 6:
        res, fl = logic8('or', a, v)
    else:                                                    # CP: A unchanged; bits 5,3 from the operand
        r2, fl = sub8(a, v, ZERO)
        res = a
        fl = z3.Concat(z3.Extract(7, 6, fl), bit(v, 5), bit(fl, 4), bit(v, 3), z3.Extract(2, 0, fl))
    s.s8(A, res); s.s8(F, fl)


def _cb(s, op, prefix):
    x, y, z = op >> 6, (op >> 3) & 7, op & 7
    pc = s.pc()
    f = s.g8(F)
    s.inc_r(2)
    regs = (B, C, D, E, H, L, None, A)
    if prefix:
        hi, lo = (IXH, IXL) if prefix == 'IX' else (IYH, IYL)
        addr = s.g16(hi, lo) + z3.SignExt(8, s.rd(pc + 2))
        v = s.rd(addr)
        size = 4
    elif z == 6:
        addr = s.g16(H, L)
        v = s.rd(addr)
        size = 2
    else:
        addr = None
        v = s.g8(regs[z])
        size = 2
    if x == 0:
        res, fl = rot(ROTS[y], v, f)
        s.s8(F, fl)
    elif x == 1:                                             # BIT y,v
        zf = bool1(bit(v, y) == 0)
        sf = bit(v, 7) if y == 7 else ZERO
        s.s8(F, flags(sf, zf, ONE, zf, ZERO, bit(f, 0)))
        s.tick(20 if prefix else (12 if z == 6 else 8)); s.adv(size)
        return
    elif x == 2:
        res = v & b8(0xFF ^ (1 << y))
    else:
        res = v | b8(1 << y)
    if addr is not None:
        s.wr(addr, res)
        if prefix and z != 6:
            s.s8(regs[z], res)                               # undocumented copy to register
        s.tick(23 if prefix else 15)
    else:
        s.s8(regs[z], res)
        s.tick(8)
    s.adv(size)


def _ed(s, op, env):
    x, y, z = op >> 6, (op >> 3) & 7, op & 7
    p, q = y >> 1, y & 1
    pc = s.pc()
    f = s.g8(F)
    a = s.g8(A)
    s.inc_r(2)
    regs = (B, C, D, E, H, L, None, A)
    rp = [(B, C), (D, E), (H, L), None]

    def get_rp(i):
        return s.sp() if i == 3 else s.g16(*rp[i])

    if x == 1:
        if z == 0:                                           # IN r,(C)
            s.reads.append(s.g16(B, C))
            v = env.port_value if env.tracer else b8(255)
            if y != 6:
                s.s8(regs[y], v)
            s.s8(F, szp(v, ZERO, ZERO, bit(f, 0)))
            s.tick(12); s.adv(2)
        elif z == 1:                                         # OUT (C),r
            s.writes.append((s.g16(B, C), b8(0) if y == 6 else s.g8(regs[y])))
            s.tick(12); s.adv(2)
        elif z == 2:                                         # SBC/ADC HL,rp
            fn = sbc16 if q == 0 else adc16
            res, fl = fn(s.g16(H, L), get_rp(p), bit(f, 0))
            s.s16(H, L, res); s.s8(F, fl)
            s.tick(15); s.adv(2)
        elif z == 3:                                         # LD (nn),rp / LD rp,(nn)
            addr = s.rd16(pc + 2)
            if q == 0:
                s.wr16(addr, get_rp(p))
            else:
                v = s.rd16(addr)
                if p == 3:
                    s.r[SP] = zx(v)
                else:
                    s.s16(rp[p][0], rp[p][1], v)
            s.tick(20); s.adv(4)
        elif z == 4:                                         # NEG
            res, fl = sub8(b8(0), a, ZERO)
            s.s8(A, res); s.s8(F, fl)
            s.tick(8); s.adv(2)
        elif z == 5:                                         # RETN / RETI
            s.setpc(s.pop()); s.tick(14)
        elif z == 6:                                         # IM
            s.r[IM] = z3.BitVecVal((0, 0, 1, 2, 0, 0, 1, 2)[y], W)
            s.tick(8); s.adv(2)
        else:
            if y == 0:                                       # LD I,A
                s.s8(I, a); s.tick(9); s.adv(2)
            elif y == 1:                                     # LD R,A
                s.s8(R, a); s.tick(9); s.adv(2)
            elif y in (2, 3):                                # LD A,I / LD A,R (R after its increment)
                v = s.g8(I if y == 2 else R)
                s.s8(A, v)
                s.tick(9)
                about = z3.And(s.r[IFF] != 0, in_window(s.r[T], env))
                pv = z3.If(z3.And(s.r[IFF] != 0, z3.Not(about)), ONE, ZERO)
                s.s8(F, flags(bit(v, 7), bool1(v == 0), ZERO, pv, ZERO, bit(f, 0), bit(v, 5), bit(v, 3)))
                s.adv(2)
            elif y == 4:                                     # RRD
                addr = s.g16(H, L)
                m = s.rd(addr)
                s.wr(addr, z3.Concat(z3.Extract(3, 0, a), z3.Extract(7, 4, m)))
                res = z3.Concat(z3.Extract(7, 4, a), z3.Extract(3, 0, m))
                s.s8(A, res); s.s8(F, szp(res, ZERO, ZERO, bit(f, 0)))
                s.tick(18); s.adv(2)
            elif y == 5:                                     # RLD
                addr = s.g16(H, L)
                m = s.rd(addr)
                s.wr(addr, z3.Concat(z3.Extract(3, 0, m), z3.Extract(3, 0, a)))
                res = z3.Concat(z3.Extract(7, 4, a), z3.Extract(7, 4, m))
                s.s8(A, res); s.s8(F, szp(res, ZERO, ZERO, bit(f, 0)))
                s.tick(18); s.adv(2)
            else:                                            # NOP
                s.tick(8); s.adv(2)
    elif x == 2 and z <= 3 and y >= 4:
        inc = 1 if y in (4, 6) else -1
        repeat = y >= 6
        hl = s.g16(H, L)
        bc = s.g16(B, C)
        if z == 0:                                           # LDI LDD LDIR LDDR
            de = s.g16(D, E)
            v = s.rd(hl)
            s.wr(de, v)
            s.s16(H, L, hl + inc); s.s16(D, E, de + inc)
            bc1 = bc - 1
            s.s16(B, C, bc1)
            n = a + v
            pv = bool1(bc1 != 0)
            s.s8(F, flags(bit(f, 7), bit(f, 6), ZERO, pv, ZERO, bit(f, 0), bit(n, 1), bit(n, 3)))
            again = z3.And(z3.BoolVal(repeat), bc1 != 0)
        elif z == 1:                                         # CPI CPD CPIR CPDR
            v = s.rd(hl)
            res, fl = sub8(a, v, ZERO)
            s.s16(H, L, hl + inc)
            bc1 = bc - 1
            s.s16(B, C, bc1)
            pv = bool1(bc1 != 0)
            s.s8(F, flags(bit(fl, 7), bit(fl, 6), bit(fl, 4), pv, ONE, bit(f, 0)))
            again = z3.And(z3.BoolVal(repeat), bc1 != 0, res != 0)
        else:
            b1 = s.g8(B) - 1
            if z == 2:                                       # INI IND INIR INDR
                s.reads.append(bc)
                v = env.port_value if env.tracer else b8(191)
                s.wr(hl, v)
                k = z3.ZeroExt(1, v) + z3.ZeroExt(1, s.g8(C) + inc)
            else:                                            # OUTI OUTD OTIR OTDR
                v = s.rd(hl)
                s.writes.append((z3.Concat(b1, s.g8(C)), v))
                k = z3.ZeroExt(1, v) + z3.ZeroExt(1, z3.Extract(7, 0, hl + inc))
            s.s16(H, L, hl + inc)
            s.s8(B, b1)
            kc = bit(k, 8)
            pv = parity8(z3.ZeroExt(5, z3.Extract(2, 0, k)) ^ b1)
            s.s8(F, flags(bit(b1, 7), bool1(b1 == 0), kc, pv, bit(v, 7), kc, bit(b1, 5), bit(b1, 3)))
            again = z3.And(z3.BoolVal(repeat), b1 != 0)
            if repeat:
                # while repeating only S Z N C are compared (H and P/V take further undocumented corrections)
                s.fmask_expr = z3.If(again, b8(0xC3), b8(DOC))
        s.setpc(z3.If(again, pc, pc + 2))
        s.tick(z3.If(again, z3.BitVecVal(21, W), z3.BitVecVal(16, W)))
    else:                                                    # undefined: NOP
        s.tick(8); s.adv(2)


def accept_interrupt(regs, mem, env):
    """state after the CPU accepts a maskable interrupt (the caller decides whether it is accepted)"""
    s = St(regs, mem)
    pc = s.pc()
    im2 = s.r[IM] == 2
    vec = z3.Concat(s.g8(I), b8(255))
    target = z3.If(im2, s.rd16(vec), b16(0x38))
    s.tick(z3.If(im2, z3.BitVecVal(19, W), z3.BitVecVal(13, W)))
    s.push(pc)
    s.setpc(target)
    s.inc_r(1)
    s.r[IFF] = z3.BitVecVal(0, W)
    s.r[HALT] = z3.BitVecVal(0, W)
    return s


def all_slots():
    out = []
    for op in range(256):
        if op not in (0xCB, 0xDD, 0xED, 0xFD):
            out.append(('main', op))
    for t in ('CB', 'ED', 'DDCB', 'FDCB'):
        out.extend((t, op) for op in range(256))
    for t in ('DD', 'FD'):
        out.extend((t, op) for op in range(256) if op != 0xCB)
    return out


def slot_bytes(slot):
    """opcode bytes selecting the slot; None = free byte (displacement)"""
    t, op = slot
    return {'main': [op], 'CB': [0xCB, op], 'ED': [0xED, op], 'DD': [0xDD, op], 'FD': [0xFD, op],
            'DDCB': [0xDD, 0xCB, None, op], 'FDCB': [0xFD, 0xCB, None, op]}[t]


# ---------------------------------------------------------------------------
# Machine cycles of each instruction for ULA contention (DESIGN.md section 3.2).
# Transcribed from the published contention tables ("Contended memory" / instruction breakdown in the
# comp.sys.sinclair FAQ): each entry is (bus address, T-states) in order; 'ir' is the I:R refresh address
# put on the bus during internal cycles; IO cycles are expanded by the port-address cases at fold time.

CYCLE_CONVENTIONS = [
    'the five trailing internal cycles of a repeating OTIR/OTDR carry BC as it was before B was decremented (both skoolkit '
    'implementations do this; the published table says only "bc:1 x5"; Fuse uses BC after the decrement)',
    'while halted (HALT state 1) the opcode fetch of the HALT step is from PC+1',
    'a DD/FD prefix before an opcode it does not affect is one 4 T-state fetch at PC',
    'undefined ED opcodes are two 4 T-state fetches',
]


class Cyc:
    def __init__(self, addr, n, cond=None, io=False):
        self.addr, self.n, self.cond, self.io = addr, n, cond, io

    def __repr__(self):
        return '%s%s:%d%s' % ('IO ' if self.io else '', z3.simplify(self.addr), self.n, '' if self.cond is None else ' if %s' % z3.simplify(self.cond))


def cycles(slot, regs, mem):
    """-> list of Cyc for the instruction selected by slot from the pre-state (regs, mem)"""
    table, op = slot
    s = St(regs, mem)
    pc = s.pc()
    ir = z3.Concat(s.g8(I), s.g8(R))
    out = []

    def m(addr, n, cond=None, times=1):
        for _ in range(times):
            out.append(Cyc(addr, n, cond))

    def io(port):
        out.append(Cyc(port, 0, None, io=True))

    if table == 'main':
        _cyc_main(s, op, None, pc, ir, m, io)
    elif table in ('DD', 'FD'):
        if uses_index(op):
            m(pc, 4)
            _cyc_main(s, op, 'IX' if table == 'DD' else 'IY', pc + 1, ir, m, io)
        else:
            m(pc, 4)
    elif table == 'CB':
        x, y, z = op >> 6, (op >> 3) & 7, op & 7
        m(pc, 4); m(pc + 1, 4)
        if z == 6:
            hl = s.g16(H, L)
            m(hl, 3); m(hl, 1)
            if x != 1:
                m(hl, 3)
    elif table in ('DDCB', 'FDCB'):
        x = op >> 6
        hi, lo = (IXH, IXL) if table == 'DDCB' else (IYH, IYL)
        addr = s.g16(hi, lo) + z3.SignExt(8, s.rd(pc + 2))
        m(pc, 4); m(pc + 1, 4); m(pc + 2, 3); m(pc + 3, 3); m(pc + 3, 1, times=2)
        m(addr, 3); m(addr, 1)
        if x != 1:
            m(addr, 3)
    elif table == 'ED':
        _cyc_ed(s, op, pc, ir, m, io)
    return out


def _cyc_main(s, op, prefix, pc, ir, m, io):
    """pc = address of the opcode byte itself (after any prefix)"""
    rg = Regs(prefix)
    x, y, z = op >> 6, (op >> 3) & 7, op & 7
    p, q = y >> 1, y & 1
    f = s.g8(F)
    hl = s.g16(H, L)
    sp = s.sp()

    def idx(dpc):
        return s.g16(rg.h, rg.l) + z3.SignExt(8, s.rd(dpc))

    if op == 0x76 and prefix is None:                        # HALT (convention: fetch from PC+1 while halted)
        m(z3.If(s.r[HALT] != 0, pc + 1, pc), 4)
        return
    m(pc, 4)
    if x == 0:
        if z == 0:
            if y == 2:                                       # DJNZ
                taken = (s.g8(B) - 1) != 0
                m(ir, 1); m(pc + 1, 3); m(pc + 1, 1, taken, 5)
            elif y >= 3:                                     # JR
                taken = None if y == 3 else cond(y - 4, f)
                m(pc + 1, 3); m(pc + 1, 1, taken, 5)
        elif z == 1:
            if q == 0:
                m(pc + 1, 3); m(pc + 2, 3)
            else:
                m(ir, 1, times=7)
        elif z == 2:
            if p == 0:
                m(s.g16(B, C), 3)
            elif p == 1:
                m(s.g16(D, E), 3)
            else:
                nn = s.rd16(pc + 1)
                m(pc + 1, 3); m(pc + 2, 3); m(nn, 3)
                if p == 2:
                    m(nn + 1, 3)
        elif z == 3:
            m(ir, 1, times=2)
        elif z in (4, 5):
            if y == 6:
                if prefix:
                    a = idx(pc + 1)
                    m(pc + 1, 3); m(pc + 1, 1, times=5); m(a, 3); m(a, 1); m(a, 3)
                else:
                    m(hl, 3); m(hl, 1); m(hl, 3)
        elif z == 6:
            if y == 6:
                if prefix:
                    a = idx(pc + 1)
                    m(pc + 1, 3); m(pc + 2, 3); m(pc + 2, 1, times=2); m(a, 3)
                else:
                    m(pc + 1, 3); m(hl, 3)
            else:
                m(pc + 1, 3)
    elif x == 1:
        if op == 0x76:
            pass
        elif y == 6 or z == 6:
            if prefix:
                a = idx(pc + 1)
                m(pc + 1, 3); m(pc + 1, 1, times=5); m(a, 3)
            else:
                m(hl, 3)
    elif x == 2:
        if z == 6:
            if prefix:
                a = idx(pc + 1)
                m(pc + 1, 3); m(pc + 1, 1, times=5); m(a, 3)
            else:
                m(hl, 3)
    else:
        if z == 0:                                           # RET cc
            taken = cond(y, f)
            m(ir, 1); m(sp, 3, taken); m(sp + 1, 3, taken)
        elif z == 1:
            if q == 0 or p == 0:                             # POP / RET
                m(sp, 3); m(sp + 1, 3)
            elif p == 3:                                     # LD SP,HL
                m(ir, 1, times=2)
        elif z == 2:
            m(pc + 1, 3); m(pc + 2, 3)
        elif z == 3:
            if y == 0:
                m(pc + 1, 3); m(pc + 2, 3)
            elif y == 2:                                     # OUT (n),A
                m(pc + 1, 3); io(z3.Concat(s.g8(A), s.rd(pc + 1)))
            elif y == 3:                                     # IN A,(n)
                m(pc + 1, 3); io(z3.Concat(s.g8(A), s.rd(pc + 1)))
            elif y == 4:                                     # EX (SP),HL
                m(sp, 3); m(sp + 1, 3); m(sp + 1, 1); m(sp + 1, 3); m(sp, 3); m(sp, 1, times=2)
        elif z == 4:                                         # CALL cc
            taken = cond(y, f)
            m(pc + 1, 3); m(pc + 2, 3); m(pc + 2, 1, taken); m(sp - 1, 3, taken); m(sp - 2, 3, taken)
        elif z == 5:
            if q == 0:                                       # PUSH
                m(ir, 1); m(sp - 1, 3); m(sp - 2, 3)
            elif p == 0:                                     # CALL
                m(pc + 1, 3); m(pc + 2, 3); m(pc + 2, 1); m(sp - 1, 3); m(sp - 2, 3)
        elif z == 6:
            m(pc + 1, 3)
        else:                                                # RST
            m(ir, 1); m(sp - 1, 3); m(sp - 2, 3)


def _cyc_ed(s, op, pc, ir, m, io):
    x, y, z = op >> 6, (op >> 3) & 7, op & 7
    p, q = y >> 1, y & 1
    hl = s.g16(H, L)
    bc = s.g16(B, C)
    sp = s.sp()
    m(pc, 4); m(pc + 1, 4)
    if x == 1:
        if z in (0, 1):
            io(bc)
        elif z == 2:
            m(ir, 1, times=7)
        elif z == 3:
            nn = s.rd16(pc + 2)
            m(pc + 2, 3); m(pc + 3, 3); m(nn, 3); m(nn + 1, 3)
        elif z == 5:
            m(sp, 3); m(sp + 1, 3)
        elif z == 7:
            if y < 4:
                m(ir, 1)
            elif y in (4, 5):
                m(hl, 3); m(hl, 1, times=4); m(hl, 3)
    elif x == 2 and z <= 3 and y >= 4:
        repeat = y >= 6
        if z == 0:
            de = s.g16(D, E)
            again = z3.And(z3.BoolVal(repeat), (bc - 1) != 0)
            m(hl, 3); m(de, 3); m(de, 1, times=2); m(de, 1, again, 5)
        elif z == 1:
            res = s.g8(A) - s.rd(hl)
            again = z3.And(z3.BoolVal(repeat), (bc - 1) != 0, res != 0)
            m(hl, 3); m(hl, 1, times=5); m(hl, 1, again, 5)
        elif z == 2:
            b1 = s.g8(B) - 1
            again = z3.And(z3.BoolVal(repeat), b1 != 0)
            m(ir, 1); io(bc); m(hl, 3); m(hl, 1, again, 5)
        else:
            b1 = s.g8(B) - 1
            bc1 = z3.Concat(b1, s.g8(C))
            again = z3.And(z3.BoolVal(repeat), b1 != 0)
            # convention: the five trailing cycles of OTIR/OTDR carry BC as it was before B was decremented
            m(ir, 1); m(hl, 3); io(bc1); m(bc, 1, again, 5)


def contended(machine, addr16, odd_bank=None):
    """is the 16-bit bus address contended?  48K: 0x4000-0x7FFF; 128K: also 0xC000-0xFFFF when an odd bank is paged"""
    c = z3.And(z3.UGE(addr16, 0x4000), z3.ULT(addr16, 0x8000))
    if machine == '128K':
        c = z3.Or(c, z3.And(odd_bank, z3.UGE(addr16, 0xC000)))
    return c


def io_cycles(hi_contended, low_bit_set):
    """the four documented I/O contention cases (concrete booleans) -> [(contended?, T-states)]"""
    if hi_contended:
        return [(True, 1)] * 4 if low_bit_set else [(True, 1), (True, 3)]
    return [(False, 4)] if low_bit_set else [(False, 1), (True, 3)]
