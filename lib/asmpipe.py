"""skool -> (skool2asm listing -> assembled image) and skool -> skool2bin image, for C04.

Both tool chains are the real ones (SkoolParser + AsmWriter, BinWriter).  The only harness code is the listing assembler
below: it walks the emitted ASM text (ORG lines, `LABEL:` lines, `LABEL EQU value` lines, instruction lines), resolves labels
textually and assembles each instruction with skoolkit's own Assembler at the current address.
"""
import os
import re
import shutil
import tempfile

_QUOTED = re.compile(r'("(?:[^"\\]|\\.)*")')


def _subst(op, table):
    """replace label names (outside quoted strings) by the decimal text of their addresses"""
    if not table:
        return op
    names = sorted(table, key=len, reverse=True)
    rx = re.compile(r'(?<![\w$"])(' + '|'.join(re.escape(n) for n in names) + r')(?![\w"])')
    parts = _QUOTED.split(op)
    for i in range(0, len(parts), 2):
        parts[i] = rx.sub(lambda m: table[m.group(1)], parts[i])
    return ''.join(parts)


def strip_comment(line):
    from skoolkit.textutils import partition_unquoted
    return partition_unquoted(line, ';')[0].rstrip()


def parse_listing(lines):
    """-> [(kind, ...)]: ('org', text) ('label', name) ('equ', name, text) ('op', text)"""
    out = []
    for line in lines:
        if not line.strip() or line.lstrip().startswith(';'):
            continue
        s = strip_comment(line)
        if not s.strip():
            continue
        m = re.fullmatch(r'\s*(\S+)\s+[Ee][Qq][Uu]\s+(.+)', s)
        if m:
            out.append(('equ', m.group(1), m.group(2).strip()))
            continue
        if not s[0].isspace():
            if s.endswith(':'):
                out.append(('label', s[:-1]))
                continue
            raise ValueError('unrecognised listing line: %r' % line)
        op = s.strip()
        if op.upper().startswith('ORG '):
            out.append(('org', op[4:].strip()))
        else:
            out.append(('op', op))
    return out


def assemble_listing(lines, assembler, value_of):
    """-> {address: byte}; value_of(text) parses an ORG/EQU number.  Later instructions overwrite earlier ones."""
    items = parse_listing(lines)
    names = {i[1] for i in items if i[0] in ('label', 'equ')}
    zero = {n: '0' for n in names}
    # pass 1: addresses
    table = {}
    addr = None
    placed = []
    for it in items:
        if it[0] == 'org':
            addr = value_of(it[1])
        elif it[0] == 'equ':
            table[it[1]] = str(value_of(it[2]))
        elif it[0] == 'label':
            if addr is None:
                raise ValueError('label before ORG')
            table[it[1]] = str(addr)
        else:
            if addr is None:
                raise ValueError('instruction before ORG')
            op = it[1]
            if op.upper().startswith(('DJNZ ', 'JR ')):
                size = 2
            else:
                size = assembler.get_size(_subst(op, zero), addr)
            if not size:
                raise ValueError('cannot size %r' % op)
            placed.append((addr, op))
            addr += size
    image = {}
    for a, op in placed:
        data = assembler._assemble(_subst(op, table), a)
        if not data:
            raise ValueError('cannot assemble %r at %d' % (op, a))
        for k, b in enumerate(data):
            image[(a + k) & 0xFFFF] = b
    return image, placed


class Pipe:
    def __init__(self):
        self.dir = tempfile.mkdtemp(prefix='skverif_c04_')
        self.n = 0

    def close(self):
        shutil.rmtree(self.dir, ignore_errors=True)

    def _file(self, text):
        self.n += 1
        f = os.path.join(self.dir, 't%d.skool' % (self.n % 4))
        with open(f, 'w') as fh:
            fh.write(text)
        return f

    def skool2asm(self, text, asm_mode, fix_mode, base, case, create_labels):
        """-> (listing lines, parser)"""
        import skoolkit.skoolasm as asmmod
        from skoolkit.skoolparser import SkoolParser
        from skoolkit.config import get_config
        # skool2asm.main: -f 3 implies -r, and -r implies at least -f 1
        if fix_mode == 3:
            asm_mode = 3
        elif asm_mode == 3:
            fix_mode = max(fix_mode, 1)
        out = []
        asmmod.write_text = lambda s: out.extend(s.rstrip('\n').split('\n'))
        asmmod.warn = lambda s: None
        cfg = get_config('skool2asm')
        parser = SkoolParser(self._file(text), case, base, asm_mode, False, fix_mode, False, create_labels, True,
                             (cfg['EntryLabel'], cfg['EntryPointLabel']), 0, 65536, ())
        w = asmmod.AsmWriter(parser, {'warnings': '0'}, {}, cfg)
        w.write()
        return out, parser

    def skool2bin(self, text, asm_mode, fix_mode):
        """-> BinWriter (snapshot, base_address, end_address)"""
        from skoolkit.skool2bin import BinWriter
        return BinWriter(self._file(text), asm_mode, fix_mode)
