"""Common scaffolding of every check: CLI, parallel map, violation triage/replay, evidence, exit codes.

exit 0  property held on everything explored (KNOWN-FINDING lines may have been printed)
exit 1  a violation that reproduces on the unpatched code and is not a listed known finding
exit 3  harness error / inconclusive (solver unknown, timeout, non-reproducing counterexample): not a pass
"""
import argparse
import json
import multiprocessing as mp
import os
import subprocess
import sys
import time
import traceback

import bootstrap

ROOT = bootstrap.ROOT
EVIDENCE_DIR = os.path.join(ROOT, 'evidence')
REPLAY_DIR = os.path.join(ROOT, 'replays')
KNOWN = os.path.join(ROOT, 'known_findings.json')
PY = sys.executable


def parse_args(prop):
    ap = argparse.ArgumentParser(description='check ' + prop)
    ap.add_argument('tier', nargs='?', default=os.environ.get('VERIF_TIER', 'quick'), choices=['quick', 'thorough'])
    ap.add_argument('--replay', help='replay a counterexample file against the unpatched code')
    ap.add_argument('--jobs', type=int, default=int(os.environ.get('VERIF_JOBS', '0')) or min(16, os.cpu_count() or 1))
    ap.add_argument('--only', help='restrict to work items whose name contains this text (debugging; evidence says so)')
    ap.add_argument('--no-evidence', action='store_true')
    a = ap.parse_args()
    a.seed = int(os.environ.get('VERIF_SEED', '0') or 0)
    return a


def known_findings(prop):
    try:
        data = json.load(open(KNOWN))
    except FileNotFoundError:
        return []
    return [f for f in data.get('findings', []) if f.get('property') == prop and f.get('status', 'known') == 'known']


def _init_worker(init, initargs):
    sys.setrecursionlimit(20000)
    if init:
        init(*initargs)


def _run_item(args):
    fn, item = args
    t = time.time()
    try:
        r = fn(item)
    except BaseException as e:      # noqa: HarnessError is a BaseException
        r = {'harness_errors': ['%s: %s: %s' % (item_name(item), type(e).__name__, e)], 'trace': traceback.format_exc()[-2000:]}
    r.setdefault('item', item_name(item))
    r['wall_s'] = round(time.time() - t, 3)
    return r


def item_name(item):
    if isinstance(item, dict):
        return item.get('name', repr(item))
    if isinstance(item, (tuple, list)):
        return ':'.join(('%02X' % x if (isinstance(x, int) and not isinstance(x, bool)) else str(x)) for x in item)
    return str(item)


def pmap(fn, items, jobs, init=None, initargs=(), seed=0, chunksize=1, progress=None, first=None):
    """run fn(item) -> dict over items on a process pool (fork); order of work is permuted by seed only"""
    items = list(items)
    if progress is None and os.environ.get('VERIF_PROGRESS'):
        t0 = time.time()
        done = [0]

        def progress(r):
            done[0] += 1
            if r.get('wall_s', 0) > float(os.environ['VERIF_PROGRESS']):
                print('[%6.1fs %d/%d] %s %.1fs paths=%s' % (time.time() - t0, done[0], len(items), r.get('item'), r.get('wall_s', 0), r.get('paths')), file=sys.stderr, flush=True)
    if seed:
        import random
        random.Random(seed).shuffle(items)
    if first:
        items.sort(key=lambda i: 0 if first(i) else 1)      # long-running items are started first (stable)
    if jobs <= 1 or len(items) <= 1:
        _init_worker(init, initargs)
        out = []
        for it in items:
            out.append(_run_item((fn, it)))
            if progress:
                progress(out[-1])
        return out
    # A worker can die (z3 is native code; a watchdog interrupt at the wrong moment has been seen to crash it).  A plain
    # multiprocessing.Pool then waits for ever, so a ProcessPoolExecutor is used: it reports a broken pool, the items that
    # did not finish are retried in a fresh pool, and an item that is in flight in three broken pools is given up as a
    # harness error (never counted as a pass).
    import concurrent.futures as cf
    ctx = mp.get_context('fork')
    out = []
    pending = list(items)
    strikes = {}
    for attempt in range(6):
        if not pending:
            break
        broken = False
        ex = cf.ProcessPoolExecutor(max_workers=jobs if attempt < 3 else max(1, jobs // 4), mp_context=ctx, initializer=_init_worker, initargs=(init, initargs))
        futs = {ex.submit(_run_item, (fn, it)): it for it in pending}
        done_items = set()
        try:
            for f in cf.as_completed(futs):
                it = futs[f]
                try:
                    r = f.result()
                except cf.process.BrokenProcessPool:
                    broken = True
                    continue
                except BaseException as e:  # noqa
                    r = {'item': item_name(it), 'harness_errors': ['%s: %s: %s' % (item_name(it), type(e).__name__, e)]}
                done_items.add(id(it))
                out.append(r)
                if progress:
                    progress(r)
        finally:
            ex.shutdown(wait=False, cancel_futures=True)
        pending = [it for it in pending if id(it) not in done_items]
        if broken:
            print('[harness] a worker process died; %d item(s) will be retried' % len(pending), file=sys.stderr, flush=True)
            for it in pending:
                strikes[id(it)] = strikes.get(id(it), 0) + 1
        if not broken:
            break
    for it in pending:
        out.append({'item': item_name(it), 'harness_errors': ['%s: worker process died repeatedly' % item_name(it)], 'wall_s': 0})
    return out


class Report:
    """collects per-item results and produces evidence + exit code"""

    def __init__(self, prop, args, functions, bounds, assumptions, stubs=(), rule='', explanation='', level='other'):
        self.prop, self.args = prop, args
        self.functions, self.bounds, self.assumptions, self.stubs = list(functions), bounds, list(assumptions), list(stubs)
        self.rule, self.explanation, self.level = rule, explanation, level
        self.t0 = time.time()
        self.items = 0
        self.paths = 0
        self.queries = 0
        self.solver_s = 0.0
        self.obligations = 0
        self.discharged = 0
        self.nontrivial = 0
        self.inconclusive = []
        self.harness_errors = []
        self.violations = []          # dicts with key, text, case
        self.samples = []
        self.realisations = {}
        self.extra = {}
        self.vacuity = []
        self.notes = []

    def add(self, r):
        self.items += 1
        self.paths += r.get('paths', 0)
        self.queries += r.get('queries', 0)
        self.solver_s += r.get('solver_s', 0.0)
        self.obligations += r.get('obligations', 0)
        self.discharged += r.get('discharged', 0)
        self.nontrivial += r.get('nontrivial', 0)
        self.inconclusive.extend(r.get('inconclusive', []))
        self.harness_errors.extend(r.get('harness_errors', []))
        if r.get('trace') and len(self.notes) < 5:
            self.notes.append(r['trace'])
        self.violations.extend(r.get('violations', []))
        for s in r.get('samples', []):
            if len(self.samples) < 12:
                self.samples.append(s)
        for k, v in r.get('realisations', {}).items():
            self.realisations[k] = self.realisations.get(k, 0) + v
        for k, v in r.get('extra', {}).items():
            if isinstance(v, (int, float)):
                self.extra[k] = self.extra.get(k, 0) + v
            elif isinstance(v, list):
                self.extra.setdefault(k, []).extend(v)
            else:
                self.extra[k] = v
        self.vacuity.extend(r.get('vacuity', []))

    # -- triage ------------------------------------------------------------
    def triage(self, replay_fn):
        """replay each candidate violation on the unpatched code; split into confirmed / not reproducing"""
        confirmed, ghosts = [], []
        seen = set()
        knownkeys = {k.get('key') for k in known_findings(self.prop)}
        nnew = 0
        for v in sorted(self.violations, key=lambda v: (v['key'] not in knownkeys, v['key'])):
            if v['key'] in seen:
                continue
            if v['key'] not in knownkeys and (nnew >= 5 or len(seen) >= 25 + len(knownkeys)):
                # enough to report; the remaining candidates are listed in the evidence as not replayed
                self.notes.append('candidate not replayed (cap reached): ' + v['text'])
                continue
            seen.add(v['key'])
            try:
                ok, detail = replay_fn(v['case'])
            except BaseException as e:  # noqa
                ok, detail = False, 'replay raised %s: %s' % (type(e).__name__, e)
            v['replay_detail'] = detail
            (confirmed if ok else ghosts).append(v)
            if ok and v['key'] not in knownkeys:
                nnew += 1
        return confirmed, ghosts

    def finish(self, replay_fn=None, replay_in_subprocess=None):
        prop = self.prop
        os.makedirs(REPLAY_DIR, exist_ok=True)
        confirmed, ghosts = [], []
        if os.environ.get('VERIF_LIST'):
            for t in sorted({v['key'] + ' | ' + v['text'] for v in self.violations}):
                print('CANDIDATE ' + t)
            return 3
        if self.violations:
            if replay_in_subprocess:
                confirmed, ghosts = self.triage(lambda case: subprocess_replay(replay_in_subprocess, case))
            elif replay_fn:
                confirmed, ghosts = self.triage(replay_fn)
            else:
                confirmed = list({v['key']: v for v in self.violations}.values())
        known = known_findings(prop)
        new, listed = [], []
        for v in confirmed:
            hit = [k for k in known if k.get('key') == v['key'] or (k.get('key_prefix') and v['key'].startswith(k['key_prefix']))]
            (listed if hit else new).append(v)
        for v in listed:
            print('KNOWN-FINDING: property=%s %s' % (prop, v['text']))
        paths = []
        for n, v in enumerate(new):
            path = os.path.join(REPLAY_DIR, '%s_%d.json' % (prop, n))
            json.dump({'property': prop, 'key': v['key'], 'text': v['text'], 'case': v['case'], 'replay_detail': v.get('replay_detail')},
                      open(path, 'w'), indent=1, default=str)
            paths.append(path)
            print('VIOLATION property=%s replay=%s' % (prop, path))
            print('  ' + v['text'])
        for g in ghosts:
            print('INCONCLUSIVE: counterexample did not reproduce on the unpatched code: %s (%s)' % (g['text'], g.get('replay_detail')))
        for e in self.harness_errors[:20]:
            print('HARNESS-ERROR: ' + e)
        for e in self.inconclusive[:20]:
            print('INCONCLUSIVE: ' + str(e))
        for v in self.vacuity:
            print('VACUITY: ' + str(v))
        wall = time.time() - self.t0
        cov = {
            'explanation': self.explanation,
            'technique': 'bounded symbolic execution of the real code + SMT (z3); deciding step = solver verdict per path obligation',
            'functions_encoded': self.functions,
            'bounds': self.bounds,
            'stubs': self.stubs,
            'work_items': self.items,
            'paths': self.paths,
            'evaluations': self.queries,
            'distinct_nontrivial': self.nontrivial,
            'rule': self.rule,
            'obligations': self.obligations,
            'discharged': self.discharged,
            'inconclusive': len(self.inconclusive) + len(ghosts) + len(self.harness_errors),
            'solver_s': round(self.solver_s, 2),
            'realisation_sites': self.realisations,
            'samples': self.samples or ['(no sample recorded)'],
            'known_findings_reported': [v['text'] for v in listed],
            'violations_new': [v['text'] for v in new],
            'vacuity_failures': self.vacuity,
            'restricted_to': self.args.only,
            'exhaustive': False,
        }
        cov.update(self.extra)
        ev = {
            'property_id': prop, 'tier': self.args.tier, 'seed': self.args.seed, 'level': self.level,
            'coverage': cov, 'assumptions': self.assumptions, 'wall_s': round(wall, 2), 'violations': len(new),
        }
        if not self.args.no_evidence:
            os.makedirs(EVIDENCE_DIR, exist_ok=True)
            tmp = os.path.join(EVIDENCE_DIR, prop + '.json.tmp')
            json.dump(ev, open(tmp, 'w'), indent=1, default=str)
            os.replace(tmp, os.path.join(EVIDENCE_DIR, prop + '.json'))
        print('%s %s: items=%d paths=%d queries=%d obligations=%d discharged=%d inconclusive=%d violations=%d known=%d wall=%.1fs solver=%.1fs'
              % (prop, self.args.tier, self.items, self.paths, self.queries, self.obligations, self.discharged,
                 cov['inconclusive'], len(new), len(listed), wall, self.solver_s))
        if new:
            return 1
        if ghosts or self.harness_errors or self.inconclusive or self.vacuity:
            return 3
        if self.obligations == 0:
            print('HARNESS-ERROR: no obligations were generated')
            return 3
        return 0


def subprocess_replay(script, case):
    """run `script --replay file` in a fresh interpreter (unpatched modules). exit 1 = reproduced, 0 = not"""
    os.makedirs(REPLAY_DIR, exist_ok=True)
    path = os.path.join(REPLAY_DIR, '_candidate_%d.json' % os.getpid())
    json.dump({'case': case}, open(path, 'w'), default=str)
    try:
        p = subprocess.run([PY, script, '--replay', path], capture_output=True, text=True, timeout=600)
        out = (p.stdout + p.stderr).strip().splitlines()
        # reproduced only when the replay itself says so: a crash of the replay code (traceback, exit 1) is not a reproduction
        said = any(line.startswith('REPRODUCED') for line in out)
        return (p.returncode == 1 and said), (out[-1] if out else '') + ' [exit %d]' % p.returncode
    finally:
        try:
            os.remove(path)
        except OSError:
            pass


def load_case(path):
    d = json.load(open(path))
    return d['case']
