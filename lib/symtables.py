"""Lookup tables as formulas.

The tables of skoolkit/simtables.py (and R1/R2/OFFSETS/JR_OFFSETS of simulator.py)
are defined by generator expressions.  This module parses the module's source on
every run and builds, for each `NAME = tuple(<elt> for x in <iter>)`, a GenTable
whose element access *evaluates <elt> of the real source* with x bound to the
(possibly symbolic) index.  Boolean operators `and`/`or`/`not` and conditional
expressions inside <elt> are evaluated without forking.
"""
import ast
import z3
from symx import SymInt, SymBool, Path, bv, W, ite, truth, is_sym, rng, let, HarnessError


class SymBin:
    def __init__(self, v):
        self.v = v

    def count(self, ch):
        assert ch == '1'
        v = self.v
        if not (v.lo >= 0 and v.hi < 65536):
            raise HarnessError('bin() of a value outside 0..65535')
        tot = z3.BitVecVal(0, W)
        for i in range(max(1, v.hi.bit_length())):
            tot = tot + z3.ZeroExt(W - 1, z3.Extract(i, i, v.e))
        return SymInt(tot, 0, max(1, v.hi.bit_length()))


def sym_bin(v):
    if isinstance(v, SymBool):
        v = v._i()
    if isinstance(v, SymInt):
        return SymBin(v)
    return bin(v)


def _or(a, b):
    if not is_sym(a):
        return a if a else b
    if isinstance(a, SymBool) and isinstance(b, (SymBool, bool)):
        return a | b
    return ite(SymBool(truth(a)), a, b)


def _and(a, b):
    if not is_sym(a):
        return b if a else a
    if isinstance(a, SymBool) and isinstance(b, (SymBool, bool)):
        return a & b
    return ite(SymBool(truth(a)), b, a)


def _not(a):
    if not is_sym(a):
        return not a
    return SymBool(z3.Not(truth(a)))


def _ifexp(c, a, b):
    if not is_sym(c):
        return a if c else b
    return ite(SymBool(truth(c)), a, b)


class _NoFork(ast.NodeTransformer):
    def visit_BoolOp(self, node):
        self.generic_visit(node)
        fn = '__or' if isinstance(node.op, ast.Or) else '__and'
        cur = node.values[0]
        for v in node.values[1:]:
            cur = ast.Call(func=ast.Name(id=fn, ctx=ast.Load()), args=[cur, v], keywords=[])
        return ast.copy_location(cur, node)

    def visit_UnaryOp(self, node):
        self.generic_visit(node)
        if isinstance(node.op, ast.Not):
            return ast.copy_location(ast.Call(func=ast.Name(id='__not', ctx=ast.Load()), args=[node.operand], keywords=[]), node)
        return node

    def visit_IfExp(self, node):
        self.generic_visit(node)
        return ast.copy_location(ast.Call(func=ast.Name(id='__ifexp', ctx=ast.Load()), args=[node.test, node.body, node.orelse], keywords=[]), node)

    def visit_Compare(self, node):
        self.generic_visit(node)
        if len(node.ops) > 1:
            parts = []
            left = node.left
            for op, right in zip(node.ops, node.comparators):
                parts.append(ast.Compare(left=left, ops=[op], comparators=[right]))
                left = right
            cur = parts[0]
            for p in parts[1:]:
                cur = ast.Call(func=ast.Name(id='__and', ctx=ast.Load()), args=[cur, p], keywords=[])
            return ast.copy_location(cur, node)
        return node


BASE_ENV = {'bin': sym_bin, 'range': range, 'tuple': tuple, '__or': _or, '__and': _and, '__not': _not, '__ifexp': _ifexp}


class ConstTable:
    """a concrete tuple that may be indexed symbolically (if-then-else chain per component)"""

    def __init__(self, tup):
        self.tup = tup

    def __len__(self):
        return len(self.tup)

    def __iter__(self):
        return iter(wrap(x) for x in self.tup)

    def __getitem__(self, i):
        if isinstance(i, SymBool):
            i = i._i()
        if isinstance(i, int):
            return wrap(self.tup[i])
        if isinstance(i, slice):
            return self.tup[i]
        n = len(self.tup)
        if not (i.lo >= 0 and i.hi < n):
            Path.cur.obligation('index-in-range:table', z3.And(i.e >= 0, i.e < n))
        if _is_table(self.tup[0]):
            # selecting between sub-tables: fork over the (few) feasible values of the index
            return wrap(self.tup[Path.cur.realise(i.e, 'subtable-index')])
        return select(self.tup[max(0, i.lo):min(n - 1, i.hi) + 1], i.e, max(0, i.lo))


def select(tup, ie, base=0):
    first = tup[0]
    if isinstance(first, (tuple, ConstTable, GenTable)):
        if isinstance(first, tuple) and len(first) <= 4:
            return tuple(select(tuple(x[k] for x in tup), ie, base) for k in range(len(first)))
        raise HarnessError('symbolic selection between sub-tables')
    if all(isinstance(x, int) for x in tup):
        if all(x == first for x in tup):
            return first
        e = z3.BitVecVal(tup[-1], W)
        for k in range(len(tup) - 2, -1, -1):
            e = z3.If(ie == base + k, z3.BitVecVal(tup[k], W), e)
        return SymInt(e, min(tup), max(tup))
    res = tup[-1]
    for k in range(len(tup) - 2, -1, -1):
        res = ite(SymBool(ie == base + k), tup[k], res)
    return res


def _is_table(x):
    return isinstance(x, tuple) and len(x) > 0 and (len(x) > 4 or any(_is_table(e) for e in x)) \
        and all(isinstance(e, (tuple, int)) for e in x)


def wrap(x):
    if _is_table(x):
        return ConstTable(x)
    return x


class GenTable:
    def __init__(self, elt, var, it_node, env, name='?'):
        self.elt, self.var, self.it_node, self.env, self.name = elt, var, it_node, env, name
        self._info = None

    def _iter_info(self):
        it = self.it_node
        if isinstance(it, ast.Call) and isinstance(it.func, ast.Name) and it.func.id == 'range':
            args = [ev(a, self.env) for a in it.args]
            if len(args) == 1:
                start, stop, step = 0, args[0], 1
            elif len(args) == 2:
                start, stop, step = args[0], args[1], 1
            else:
                start, stop, step = args
            if not isinstance(step, int):
                raise HarnessError('symbolic range step')
            n = (stop - start) if step > 0 else (start - stop)
            if not isinstance(n, int):
                ns = z3.simplify(bv(n))
                if not z3.is_bv_value(ns):
                    raise HarnessError('range length of table %s is not constant: %s' % (self.name, ns))
                n = ns.as_signed_long()
            n = max(0, (n + abs(step) - 1) // abs(step))
            return ('range', start, step, n)
        seq = ev(it, self.env)
        if not isinstance(seq, tuple):
            raise HarnessError('unsupported table iterable')
        return ('seq', seq, None, len(seq))

    def info(self):
        # the iterable may depend on outer loop variables (range(a + c, ...)) but not on anything else
        if self._info is None:
            self._info = self._iter_info()
        return self._info

    def __len__(self):
        return self.info()[3]

    def __iter__(self):
        return (self[i] for i in range(len(self)))

    def __getitem__(self, i):
        kind, a, step, n = self.info()
        if isinstance(i, SymBool):
            i = i._i()
        if isinstance(i, slice):
            return tuple(self[k] for k in range(*i.indices(n)))
        if isinstance(i, int):
            if not -n <= i < n:
                raise IndexError('tuple index out of range')
            if i < 0:
                i += n
        else:
            if not (i.lo >= 0 and i.hi < n):
                Path.cur.obligation('index-in-range:table ' + self.name, z3.And(i.e >= 0, i.e < n))
                # inside the table the index is in range (outside is an obligation failure anyway)
                i = SymInt(i.e, max(0, i.lo), min(n - 1, i.hi))
            i = let(i, 'ti')
        if kind == 'range':
            x = a + i * step
        else:
            x = a[i] if isinstance(i, int) else select(a, i.e)
        env = dict(self.env)
        env[self.var] = x
        return ev(self.elt, env, self.name)


def ev(node, env, name='?'):
    if isinstance(node, ast.Call) and isinstance(node.func, ast.Name) and node.func.id == 'tuple' \
            and len(node.args) == 1 and isinstance(node.args[0], ast.GeneratorExp):
        g = node.args[0]
        if len(g.generators) != 1 or g.generators[0].ifs or not isinstance(g.generators[0].target, ast.Name):
            raise HarnessError('unsupported generator in table ' + name)
        comp = g.generators[0]
        return GenTable(g.elt, comp.target.id, comp.iter, env, name)
    if isinstance(node, ast.Tuple):
        return tuple(ev(e, env, name) for e in node.elts)
    return eval(_compile(node), {'__builtins__': {}}, env)


_CODE = {}


def _compile(node):
    c = _CODE.get(id(node))
    if c is None:
        expr = ast.Expression(_NoFork().visit(_clone(node)))
        ast.fix_missing_locations(expr)
        c = _CODE[id(node)] = (compile(expr, '<symtable>', 'eval'), node)   # keep node alive: ids stay unique
    return c[0]


def _clone(node):
    import copy
    return copy.deepcopy(node)


def load_tables(path, names=None):
    src = open(path).read()
    tree = ast.parse(src)
    env = dict(BASE_ENV)
    out = {}
    for st in tree.body:
        if isinstance(st, ast.Assign) and len(st.targets) == 1 and isinstance(st.targets[0], ast.Name):
            name = st.targets[0].id
            if names is not None and name not in names:
                continue
            val = ev(st.value, env, name)
            if isinstance(val, tuple):
                val = wrap(val)
            env[name] = val
            out[name] = val
    return out


def table_dims(t):
    """shape of a concrete nested tuple table (ignoring the final (value, flags) pair)"""
    dims = []
    while isinstance(t, tuple) and len(t) > 4:
        dims.append(len(t))
        t = t[0]
    return dims


def validate(tabs, module, names=None):
    """compare every entry of every derived table with the imported module's table (concrete evaluation).
    Returns (entries compared, list of mismatches)."""
    class _P:       # dummy path: concrete evaluation needs no solver
        def obligation(self, *a): pass
    Path.cur = _P()
    n = 0
    bad = []

    def conc(x):
        if isinstance(x, bool):
            return int(x)
        if isinstance(x, int):
            return x
        if isinstance(x, tuple):
            return tuple(conc(y) for y in x)
        if isinstance(x, (SymInt, SymBool)):
            s = z3.simplify(bv(x))
            return s.as_signed_long()
        raise TypeError(type(x))

    def walk(sym, real, idx, name):
        nonlocal n
        if isinstance(real, tuple) and (len(real) > 4 or isinstance(real[0], tuple)):
            if len(sym) != len(real):
                bad.append((name, idx, 'len', len(sym), len(real)))
                return
            for i in range(len(real)):
                walk(sym[i], real[i], idx + (i,), name)
        else:
            n += 1
            c = conc(sym)
            if c != real and not (isinstance(real, tuple) and tuple(c) == tuple(real)):
                if len(bad) < 20:
                    bad.append((name, idx, c, real))

    try:
        for name, t in tabs.items():
            if names is not None and name not in names:
                continue
            walk(t, getattr(module, name), (), name)
    finally:
        Path.cur = None
    return n, bad
