"""Engine A: symbolic execution of real Python code on proxy objects.

SymInt / SymBool wrap z3 bit-vector / Bool terms and implement the int
protocol with Python (unbounded, floor-division) semantics.  Real code is run
unmodified on these proxies; whenever it needs a concrete truth value the
current Path is asked (`branch`), and the driver (`explore`) re-executes the
function once per feasible decision sequence.
"""
import os
import threading
import time
import z3

W = 64                       # bit-vector width standing for Python ints
LIMIT = 1 << 62              # interval guard: beyond this a proxy would wrap
FULL = (-(1 << 63), (1 << 63) - 1)


class Abort(BaseException):
    """Path is infeasible / cut.  BaseException so code under test cannot catch it."""


class HarnessError(BaseException):
    """The engine cannot model something; the run is inconclusive, never a pass."""


class Inconclusive(HarnessError):
    pass


class Stats:
    def __init__(self):
        self.queries = 0
        self.solver_s = 0.0
        self.paths = 0
        self.unknown = 0
        self.realisations = {}   # site -> count of values

    def merge(self, o):
        self.queries += o.queries
        self.solver_s += o.solver_s
        self.paths += o.paths
        self.unknown += o.unknown
        for k, v in o.realisations.items():
            self.realisations[k] = self.realisations.get(k, 0) + v

    def as_dict(self):
        return dict(queries=self.queries, solver_s=round(self.solver_s, 3), paths=self.paths,
                    unknown=self.unknown, realisations=dict(self.realisations))


class Path:
    """One execution of the function under test: decision prefix + path condition."""
    cur = None
    timeout_ms = int(os.environ.get("VERIF_SOLVER_TIMEOUT_MS", "300000"))     # per query; a time-out is reported as inconclusive (exit 3), never as a pass

    def __init__(self, prefix=(), stats=None):
        self.solver = z3.Solver()
        self.solver.set('timeout', self.timeout_ms)
        self.decisions = list(prefix)
        self.pos = 0
        self.pending = []
        self.pc = []             # list of z3 Bool (path condition, includes assumptions)
        self.oblig = []          # (kind, z3 Bool) side obligations (index in range, byte range...)
        self.events = []         # free-form log (port events etc.)
        self.stats = stats or Stats()
        self.nfresh = 0
        self.data = {}           # scratch for harnesses
        self.decided = {}        # ast id of a decided branch condition -> bool

    # -- solver ---------------------------------------------------------
    def assume(self, *conds):
        for c in conds:
            self.pc.append(c)
            self.solver.add(c)

    def check(self, *extra, model=False):
        t = time.time()
        self.solver.push()
        # z3's own timeout is not always honoured inside preprocessing: a watchdog interrupts the context
        dog = threading.Timer(self.timeout_ms / 1000.0 + 10, self.solver.ctx.interrupt)
        dog.daemon = True
        dog.start()
        try:
            for e in extra:
                self.solver.add(e)
            try:
                r = self.solver.check()
            except z3.Z3Exception:
                r = z3.unknown
            m = self.solver.model() if (model and r == z3.sat) else None
        finally:
            dog.cancel()
            self.solver.pop()
            self.stats.queries += 1
            self.stats.solver_s += time.time() - t
        r = str(r)
        if r == 'unknown':
            self.stats.unknown += 1
        return (r, m) if model else r

    def assuming(self, *extra):
        """context manager: temporarily add constraints (a case split made by the harness, not by the code under test)"""
        path = self

        class _Ctx:
            def __enter__(self_):
                path.solver.push()
                for e in extra:
                    path.solver.add(e)
                return path

            def __exit__(self_, *a):
                path.solver.pop()
                return False
        return _Ctx()

    def check_any(self, diffs, names=None):
        """is any of the z3 Bools `diffs` satisfiable on this path?  Decided one disjunct at a time (after simplification),
        which is far cheaper for z3 than one big disjunction.  -> ('unsat', None, None) | ('sat', model, [names]) | ('unknown', None, None)"""
        live = []
        for i, d in enumerate(diffs):
            ds = z3.simplify(d)
            if z3.is_false(ds):
                continue
            live.append((i, ds))
        unknown = False
        for i, ds in live:
            r, m = self.check(ds, model=True)
            if r == 'sat':
                which = [names[j] if names else str(j) for j, dd in live if z3.is_true(m.eval(dd, model_completion=True))]
                return 'sat', m, which
            if r == 'unknown':
                unknown = True
        return ('unknown' if unknown else 'unsat'), None, None

    def fresh(self, name='v', width=W):
        self.nfresh += 1
        return z3.BitVec('%s!%d' % (name, self.nfresh), width)

    def branch(self, cond):
        """cond: z3 Bool -> concrete bool; forks (by scheduling a re-execution) when both sides are feasible."""
        cond = z3.simplify(cond)
        if z3.is_true(cond):
            return True
        if z3.is_false(cond):
            return False
        cid = cond.get_id()
        if cid in self.decided:
            return self.decided[cid]
        if self.pos < len(self.decisions):
            d = self.decisions[self.pos]
            if isinstance(d, tuple):
                raise HarnessError('decision replay mismatch (a realisation was recorded here)')
        else:
            rt = self.check(cond)
            if rt == 'unknown':
                raise Inconclusive('solver unknown at branch')
            if rt == 'unsat':
                d = False     # the path so far is feasible, so the other side must be
            else:
                rf = self.check(z3.Not(cond))
                if rf == 'unknown':
                    raise Inconclusive('solver unknown at branch')
                if rf == 'sat':
                    self.pending.append(self.decisions[:self.pos] + [False])
                d = True
            self.decisions.append(d)
        self.pos += 1
        self.assume(cond if d else z3.Not(cond))
        self.decided[cid] = d
        self._keep = getattr(self, '_keep', [])
        self._keep.append(cond)      # keep the term alive so its id is not reused
        return d

    def realise(self, e, site='?', limit=70000):
        """Concrete value of BV term e on this path, forking over all feasible values.  The value chosen is recorded in the
        decision list, so that a re-execution replays exactly the same case split (solver models are not reproducible)."""
        s = z3.simplify(e)
        if z3.is_bv_value(s):
            return s.as_signed_long()
        n = 0
        while True:
            if self.pos < len(self.decisions):
                d = self.decisions[self.pos]
                if not isinstance(d, tuple):
                    raise HarnessError('decision replay mismatch at ' + site)
                _, v, taken = d
                self.pos += 1
                cond = e == v
                self.assume(cond if taken else z3.Not(cond))
                if taken:
                    return v
                n += 1
                if n > limit:
                    raise HarnessError('realise: too many values at ' + site)
                continue
            r, m = self.check(model=True)
            if r != 'sat':
                raise Inconclusive('realise: %s' % r) if r == 'unknown' else Abort()
            v = m.eval(e, model_completion=True).as_signed_long()
            self.stats.realisations[site] = self.stats.realisations.get(site, 0) + 1
            rf = self.check(e != v)
            if rf == 'unknown':
                raise Inconclusive('solver unknown in realise')
            if rf == 'sat':
                self.pending.append(self.decisions[:self.pos] + [('r', v, False)])
            self.decisions.append(('r', v, True))
            self.pos += 1
            self.assume(e == v)
            return v

    def obligation(self, kind, cond):
        cond = z3.simplify(cond)
        if not z3.is_true(cond):
            self.oblig.append((kind, cond))

    def failed_obligations(self):
        """-> list of (kind, cond, model) for obligations not valid on this path; raises Inconclusive on unknown."""
        out = []
        if not self.oblig:
            return out
        r = self.check(z3.Or(*[z3.Not(c) for _, c in self.oblig]))
        if r == 'unsat':
            return out
        for kind, c in self.oblig:
            r, m = self.check(z3.Not(c), model=True)
            if r == 'unknown':
                raise Inconclusive('solver unknown on obligation ' + kind)
            if r == 'sat':
                out.append((kind, c, m))
        return out


def cur():
    return Path.cur


# ---------------------------------------------------------------------------
def ispow2(n):
    return n > 0 and n & (n - 1) == 0


def _bits(lo, hi):
    """smallest k with -2^k <= lo and hi < 2^k"""
    k = 0
    while not (-(1 << k) <= lo and hi < (1 << k)):
        k += 1
    return k


def _guard(lo, hi):
    if lo < -LIMIT or hi > LIMIT:
        raise HarnessError('interval leaves the 64-bit model: [%d, %d]' % (lo, hi))
    return lo, hi


class SymBool:
    __slots__ = ('e',)

    def __init__(self, e):
        self.e = e

    def __bool__(self):
        return Path.cur.branch(self.e)

    def _i(self):
        return SymInt(z3.If(self.e, z3.BitVecVal(1, W), z3.BitVecVal(0, W)), 0, 1)

    def __index__(self):
        return int(bool(self))

    def __int__(self):
        return int(bool(self))

    def __mul__(self, o): return self._i() * o
    __rmul__ = __mul__
    def __add__(self, o): return self._i() + o
    __radd__ = __add__
    def __sub__(self, o): return self._i() - o
    def __rsub__(self, o): return o - self._i()
    def __neg__(self): return -self._i()
    def __floordiv__(self, o): return self._i() // o
    def __mod__(self, o): return self._i() % o
    def __lshift__(self, o): return self._i() << o
    def __rshift__(self, o): return self._i() >> o

    def __and__(self, o):
        if isinstance(o, SymBool): return SymBool(z3.And(self.e, o.e))
        if isinstance(o, bool): return self if o else False
        return self._i() & o
    __rand__ = __and__

    def __or__(self, o):
        if isinstance(o, SymBool): return SymBool(z3.Or(self.e, o.e))
        if isinstance(o, bool): return True if o else self
        return self._i() | o
    __ror__ = __or__

    def __xor__(self, o):
        if isinstance(o, SymBool): return SymBool(z3.Xor(self.e, o.e))
        if isinstance(o, bool): return SymBool(z3.Not(self.e)) if o else self
        return self._i() ^ o
    __rxor__ = __xor__

    def __eq__(self, o):
        if isinstance(o, SymBool): return SymBool(self.e == o.e)
        if isinstance(o, bool): return self if o else SymBool(z3.Not(self.e))
        return self._i() == o

    def __ne__(self, o):
        r = self.__eq__(o)
        return SymBool(z3.Not(r.e)) if isinstance(r, SymBool) else (not r)

    def __lt__(self, o): return self._i() < o
    def __le__(self, o): return self._i() <= o
    def __gt__(self, o): return self._i() > o
    def __ge__(self, o): return self._i() >= o
    def __hash__(self): return hash(bool(self))
    def __repr__(self): return 'SymBool(%s)' % z3.simplify(self.e)


def _const_of(e):
    if z3.is_bv_value(e):
        return e.as_signed_long()
    return None


class SymInt:
    """Proxy for a Python int: 64-bit signed BV term + conservative interval [lo, hi]."""
    __slots__ = ('e', 'lo', 'hi', 'prov')

    def __init__(self, e, lo=None, hi=None):
        self.e = e
        self.prov = None         # (base SymInt, delta int-like): self == base + delta and base has a cached quotient/remainder
        if lo is None or hi is None:
            c = _const_of(e)
            if c is not None:
                lo = hi = c
            else:
                lo, hi = FULL
        self.lo, self.hi = lo, hi

    # -- helpers ----------------------------------------------------------
    @staticmethod
    def _coerce(o):
        if isinstance(o, SymInt):
            return o
        if isinstance(o, SymBool):
            return o._i()
        if isinstance(o, bool):
            o = int(o)
        if isinstance(o, int):
            if not -LIMIT <= o <= LIMIT:
                raise HarnessError('constant too large for the 64-bit model')
            return SymInt(z3.BitVecVal(o, W), o, o)
        return None

    def _bounded(self):
        return self.lo >= -LIMIT and self.hi <= LIMIT

    def _need_bounded(self, what):
        if not self._bounded():
            raise HarnessError('%s on a value of unknown range' % what)

    # -- arithmetic -------------------------------------------------------
    def __add__(self, o):
        o = self._coerce(o)
        if o is None: return NotImplemented
        self._need_bounded('+'); o._need_bounded('+')
        lo, hi = _guard(self.lo + o.lo, self.hi + o.hi)
        res = SymInt(self.e + o.e, lo, hi)
        p = Path.cur
        if p is not None and 'decomposed' in getattr(p, 'data', {}):
            dec = p.data['decomposed']
            for x, y in ((self, o), (o, self)):
                if x.prov is not None:
                    res.prov = (x.prov[0], x.prov[1] + y)
                    break
                if x.e.get_id() in dec:
                    res.prov = (x, y)
                    break
        return res
    __radd__ = __add__

    def __sub__(self, o):
        o = self._coerce(o)
        if o is None: return NotImplemented
        self._need_bounded('-'); o._need_bounded('-')
        lo, hi = _guard(self.lo - o.hi, self.hi - o.lo)
        return SymInt(self.e - o.e, lo, hi)

    def __rsub__(self, o):
        o = self._coerce(o)
        if o is None: return NotImplemented
        return o.__sub__(self)

    def __mul__(self, o):
        o = self._coerce(o)
        if o is None: return NotImplemented
        self._need_bounded('*'); o._need_bounded('*')
        c = [self.lo * o.lo, self.lo * o.hi, self.hi * o.lo, self.hi * o.hi]
        lo, hi = _guard(min(c), max(c))
        return SymInt(self.e * o.e, lo, hi)
    __rmul__ = __mul__

    def __neg__(self):
        self._need_bounded('neg')
        return SymInt(-self.e, -self.hi, -self.lo)

    def __pos__(self):
        return self

    def __abs__(self):
        self._need_bounded('abs')
        hi = max(abs(self.lo), abs(self.hi))
        lo = 0 if self.lo <= 0 <= self.hi else min(abs(self.lo), abs(self.hi))
        return SymInt(z3.If(self.e < 0, -self.e, self.e), lo, hi)

    def __invert__(self):
        self._need_bounded('~')
        return SymInt(~self.e, -self.hi - 1, -self.lo - 1)

    def _bitop(self, o, f, kind):
        o = self._coerce(o)
        if o is None: return NotImplemented
        e = f(self.e, o.e)
        if kind == 'and':
            # a non-negative operand bounds the result
            cands = [x.hi for x in (self, o) if x.lo >= 0]
            if cands:
                return SymInt(e, 0, min(cands))
        self._need_bounded(kind); o._need_bounded(kind)
        k = max(_bits(self.lo, self.hi), _bits(o.lo, o.hi))
        if self.lo >= 0 and o.lo >= 0:
            return SymInt(e, 0, (1 << k) - 1)
        return SymInt(e, -(1 << k), (1 << k) - 1)

    def __and__(self, o): return self._bitop(o, lambda a, b: a & b, 'and')
    __rand__ = __and__
    def __or__(self, o): return self._bitop(o, lambda a, b: a | b, 'or')
    __ror__ = __or__
    def __xor__(self, o): return self._bitop(o, lambda a, b: a ^ b, 'xor')
    __rxor__ = __xor__

    def __lshift__(self, o):
        if isinstance(o, (SymInt, SymBool)):
            o = Path.cur.realise(SymInt._coerce(o).e, 'lshift-amount')
        if not isinstance(o, int): return NotImplemented
        if o < 0: raise ValueError('negative shift count')
        return self * (1 << o)

    def __rlshift__(self, o):
        n = Path.cur.realise(self.e, 'lshift-amount')
        return o << n

    def __rshift__(self, o):
        if isinstance(o, (SymInt, SymBool)):
            o = Path.cur.realise(SymInt._coerce(o).e, 'rshift-amount')
        if not isinstance(o, int): return NotImplemented
        if o < 0: raise ValueError('negative shift count')
        if o >= W:
            raise HarnessError('shift count too large')
        return SymInt(self.e >> o, self.lo >> o, self.hi >> o)

    def __rrshift__(self, o):
        n = Path.cur.realise(self.e, 'rshift-amount')
        return o >> n

    def _divmod_const(self, n):
        """floor division / modulo by a positive int constant -> (q, r) SymInts"""
        self._need_bounded('// or %')
        if self.lo >= 0 and self.hi < n:
            return SymInt(z3.BitVecVal(0, W), 0, 0), self
        qlo, qhi = self.lo // n, self.hi // n
        if ispow2(n):
            k = n.bit_length() - 1
            q = SymInt(self.e >> k, qlo, qhi)
            r = SymInt(self.e & (n - 1), 0, n - 1)
            return q, r
        if qlo == qhi:
            q = SymInt(z3.BitVecVal(qlo, W), qlo, qlo)
            r = SymInt(self.e - qlo * n, self.lo - qlo * n, self.hi - qlo * n)
            return q, r
        p = Path.cur
        key = ('divmod', self.e.get_id(), n)
        if key in p.data:
            return p.data[key]
        if self.prov is not None:
            base, delta = self.prov
            bkey = ('divmod', base.e.get_id(), n)
            dlo, dhi = rng(delta)
            if bkey in p.data and dlo >= 0 and dhi < n:
                # (base + delta) with 0 <= delta < n: at most one wrap; no new quotient variable needed
                q, r = p.data[bkey]
                sm = r + delta
                wrap = sm >= n
                res = (ite(wrap, q + 1, q), ite(wrap, sm - n, sm))
                p.data[key] = res
                return res
        qv, rv = p.fresh('q'), p.fresh('r')
        p.assume(self.e == qv * n + rv, rv >= 0, rv < n, qv >= qlo, qv <= qhi)
        res = (SymInt(qv, qlo, qhi), SymInt(rv, 0, n - 1))
        p.data[key] = res
        p.data.setdefault('decomposed', set()).add(self.e.get_id())
        p.data.setdefault('_keep', []).append(self.e)
        return res

    def _divisor(self, o):
        if isinstance(o, SymBool):
            o = o._i()
        if isinstance(o, SymInt):
            c = _const_of(z3.simplify(o.e))
            if c is None:
                c = Path.cur.realise(o.e, 'divisor')
            o = c
        if isinstance(o, bool):
            o = int(o)
        if not isinstance(o, int):
            return None
        if o == 0:
            raise ZeroDivisionError('integer division or modulo by zero')
        return o

    def __floordiv__(self, o):
        n = self._divisor(o)
        if n is None: return NotImplemented
        if n < 0:
            return (-self)._divmod_const(-n)[0]
        return self._divmod_const(n)[0]

    def __mod__(self, o):
        n = self._divisor(o)
        if n is None: return NotImplemented
        if n < 0:
            return -((-self)._divmod_const(-n)[1])
        return self._divmod_const(n)[1]

    def __divmod__(self, o):
        return self // o, self % o

    def __rfloordiv__(self, o):
        n = Path.cur.realise(self.e, 'divisor')
        return o // n

    def __rmod__(self, o):
        if isinstance(o, str):
            return o % (_fmt_hook(self),)
        n = Path.cur.realise(self.e, 'divisor')
        return o % n

    def __truediv__(self, o):
        raise HarnessError('float division on a symbolic int')
    __rtruediv__ = __truediv__

    def __pow__(self, o):
        if isinstance(o, int) and 0 <= o <= 4:
            r = 1
            for _ in range(o):
                r = self * r
            return r
        raise HarnessError('pow on symbolic int')

    # -- comparison -------------------------------------------------------
    def _cmp(self, o, f, static):
        o = self._coerce(o)
        if o is None: return NotImplemented
        s = static(self, o)
        if s is not None:
            return s
        a, b = _diff_form(self, o)
        return SymBool(f(a, b))

    def __lt__(self, o):
        return self._cmp(o, lambda a, b: a < b, lambda x, y: True if x.hi < y.lo else (False if x.lo >= y.hi else None))

    def __le__(self, o):
        return self._cmp(o, lambda a, b: a <= b, lambda x, y: True if x.hi <= y.lo else (False if x.lo > y.hi else None))

    def __gt__(self, o):
        return self._cmp(o, lambda a, b: a > b, lambda x, y: True if x.lo > y.hi else (False if x.hi <= y.lo else None))

    def __ge__(self, o):
        return self._cmp(o, lambda a, b: a >= b, lambda x, y: True if x.lo >= y.hi else (False if x.hi < y.lo else None))

    def __eq__(self, o):
        c = self._coerce(o)
        if c is None:
            return False
        if self.hi < c.lo or self.lo > c.hi:
            return False
        a, b = _diff_form(self, c)
        return SymBool(a == b)

    def __ne__(self, o):
        c = self._coerce(o)
        if c is None:
            return True
        if self.hi < c.lo or self.lo > c.hi:
            return True
        a, b = _diff_form(self, c)
        return SymBool(a != b)

    def __bool__(self):
        if self.lo > 0 or self.hi < 0:
            return True
        return Path.cur.branch(self.e != 0)

    def __hash__(self):
        if HASH_BY_IDENTITY:
            return id(self)
        return hash(Path.cur.realise(self.e, 'hash'))

    def __index__(self):
        return Path.cur.realise(self.e, 'index')

    def __int__(self):
        return Path.cur.realise(self.e, 'int()')

    def __format__(self, spec):
        return _fmt_hook(self, spec)

    def __str__(self):
        return _fmt_hook(self, '')

    def __repr__(self):
        return 'SymInt(%s)[%d..%d]' % (z3.simplify(self.e), self.lo, self.hi)

    def bit_length(self):
        raise HarnessError('bit_length on symbolic int')


# When set by a harness, hashing a SymInt does not realise it: it hashes by identity.  Only sound where the code under test
# uses symbolic values as keys of a cache whose misses are harmless (stated by the check that sets it).
HASH_BY_IDENTITY = False


def _diff_form(x, y):
    """operands for comparing x with y.  When both are compound terms the comparison is made on (x - y) against 0: z3's
    simplifier cancels common summands, whereas comparing two differently associated 64-bit sums is very hard for the
    bit-vector solver.  Sound because the interval guard keeps every value within +-2^62 (no wrap in x - y)."""
    if z3.is_bv_value(x.e) or z3.is_bv_value(y.e) or z3.is_const(x.e) and z3.is_const(y.e):
        return x.e, y.e
    if not (x._bounded() and y._bounded()):
        return x.e, y.e
    return z3.simplify(x.e - y.e), z3.BitVecVal(0, W)


def _default_fmt(v, spec=''):
    raise HarnessError('formatting a symbolic int without the numerals layer')


_fmt_hook = _default_fmt


def set_format_hook(f):
    global _fmt_hook
    _fmt_hook = f or _default_fmt


def bv(v):
    """z3 BV(W) term of an int-like value"""
    if isinstance(v, SymInt):
        return v.e
    if isinstance(v, SymBool):
        return v._i().e
    if isinstance(v, bool):
        return z3.BitVecVal(int(v), W)
    if isinstance(v, int):
        return z3.BitVecVal(v, W)
    raise TypeError('not int-like: %r' % type(v))


def rng(v):
    if isinstance(v, SymInt):
        return v.lo, v.hi
    if isinstance(v, SymBool):
        return 0, 1
    v = int(v)
    return v, v


def is_sym(v):
    return isinstance(v, (SymInt, SymBool))


def sym_int(name, lo, hi, path=None):
    """fresh symbolic int constrained to [lo, hi] on the current path"""
    p = path or Path.cur
    v = z3.BitVec(name, W)
    p.assume(v >= lo, v <= hi)
    return SymInt(v, lo, hi)


def let(v, name='let'):
    """bind v to a fresh variable (keeps terms small)"""
    if not isinstance(v, SymInt):
        return v
    if z3.is_const(v.e):
        return v
    p = Path.cur
    key = ('let', v.e.get_id())
    if key in p.data:
        return SymInt(p.data[key][0], v.lo, v.hi)
    f = p.fresh(name)
    p.assume(f == v.e)
    p.data[key] = (f, v.e)        # the term is kept alive so that its id stays unique
    return SymInt(f, v.lo, v.hi)


def ite(c, a, b):
    """symbolic if-then-else over int-likes without forking"""
    if isinstance(c, bool):
        return a if c else b
    if isinstance(c, SymInt):
        c = c != 0
        if isinstance(c, bool):
            return a if c else b
    if isinstance(a, SymBool) and isinstance(b, (SymBool, bool)) or isinstance(b, SymBool) and isinstance(a, bool):
        ea = a.e if isinstance(a, SymBool) else z3.BoolVal(a)
        eb = b.e if isinstance(b, SymBool) else z3.BoolVal(b)
        return SymBool(z3.If(c.e, ea, eb))
    (alo, ahi), (blo, bhi) = rng(a), rng(b)
    return SymInt(z3.If(c.e, bv(a), bv(b)), min(alo, blo), max(ahi, bhi))


def truth(v):
    """z3 Bool for the truthiness of v"""
    if isinstance(v, SymBool):
        return v.e
    if isinstance(v, SymInt):
        return v.e != 0
    return z3.BoolVal(bool(v))


# ---------------------------------------------------------------------------
class SymArray:
    """list-like over a z3 Array(BV16 -> BV8); index/value range conditions become obligations."""
    IW = 16

    def __init__(self, name, length, arr=None):
        self.arr = arr if arr is not None else z3.Array(name, z3.BitVecSort(self.IW), z3.BitVecSort(8))
        self.length = length
        self.writes = []      # (index term BV16, value term BV8) in order

    def __len__(self):
        return self.length

    def _idx(self, i, what):
        if isinstance(i, SymBool):
            i = i._i()
        if isinstance(i, int):
            if not -self.length <= i < self.length:
                raise IndexError('list index out of range')
            if i < 0:
                i += self.length
            return z3.BitVecVal(i, self.IW)
        if not isinstance(i, SymInt):
            raise TypeError('list indices must be integers or slices, not %s' % type(i).__name__)
        if not (i.lo >= 0 and i.hi < self.length):
            Path.cur.obligation('index-in-range:' + what, z3.And(i.e >= 0, i.e < self.length))
        return z3.Extract(self.IW - 1, 0, i.e)

    def __getitem__(self, i):
        if isinstance(i, slice):
            if any(is_sym(x) for x in (i.start, i.stop, i.step)):
                return self._sym_slice(i)
            start, stop, step = i.indices(self.length)
            return [self[k] for k in range(start, stop, step)]
        ie = self._idx(i, 'read')
        v = z3.simplify(z3.Select(self.arr, ie))
        return SymInt(z3.ZeroExt(W - 8, v), 0, 255)

    def _sym_slice(self, sl):
        """slice with symbolic bounds: the length is realised (forking over its few values); Python's clamping
        of out-of-range bounds is reproduced"""
        if sl.step not in (None, 1):
            raise HarnessError('symbolic slice with a step')
        p = Path.cur
        n = self.length

        def clamp(x, default):
            if x is None:
                return default
            if isinstance(x, int):
                if x < 0:
                    x += n
                return min(max(x, 0), n)
            if x.lo < 0 and p.branch(x.e < 0):
                x = x + n
                if x.lo < 0 and p.branch(x.e < 0):
                    return 0
            if x.hi > n and p.branch(x.e > n):
                return n
            return x
        start, stop = clamp(sl.start, 0), clamp(sl.stop, n)
        ln = stop - start
        if not isinstance(ln, int):
            ln = p.realise(ln.e, 'slice-length', limit=4096)
        return [self[start + k] for k in range(max(0, ln))]

    def __setitem__(self, i, v):
        if isinstance(i, slice):
            start, stop, step = i.indices(self.length)
            vals = list(v)
            if len(vals) != len(range(start, stop, step)):
                raise HarnessError('slice assignment changes length')
            for k, x in zip(range(start, stop, step), vals):
                self[k] = x
            return
        ie = self._idx(i, 'write')
        lo, hi = rng(v)
        if lo < 0 or hi > 255:
            Path.cur.obligation('byte-range:write', z3.And(bv(v) >= 0, bv(v) <= 255))
        ve = z3.Extract(7, 0, bv(v))
        self.writes.append((ie, ve))
        self.arr = z3.Store(self.arr, ie, ve)

    def __iter__(self):
        raise HarnessError('iteration over a symbolic array')

    def index(self, *a):
        raise HarnessError('index() on a symbolic array')


class SymList:
    """fixed-length list of int-likes with symbolic indexing by if-then-else (for small lists)."""

    def __init__(self, items):
        self.items = list(items)

    def __len__(self):
        return len(self.items)

    def __iter__(self):
        return iter(self.items)

    def __getitem__(self, i):
        if isinstance(i, (int, slice)):
            return self.items[i]
        if isinstance(i, SymBool):
            i = i._i()
        n = len(self.items)
        if not (i.lo >= 0 and i.hi < n):
            Path.cur.obligation('index-in-range:symlist', z3.And(i.e >= 0, i.e < n))
        lo = max(0, i.lo); hi = min(n - 1, i.hi)
        res = self.items[hi]
        for k in range(hi - 1, lo - 1, -1):
            res = ite(i == k, self.items[k], res)
        return res

    def __setitem__(self, i, v):
        if isinstance(i, (int, slice)):
            self.items[i] = v
            return
        n = len(self.items)
        if not (i.lo >= 0 and i.hi < n):
            Path.cur.obligation('index-in-range:symlist', z3.And(i.e >= 0, i.e < n))
        for k in range(max(0, i.lo), min(n - 1, i.hi) + 1):
            self.items[k] = ite(i == k, v, self.items[k])


# ---------------------------------------------------------------------------
def explore(fn, stats=None, max_paths=100000, on_path=None):
    """Run fn(path) once per feasible decision sequence.

    Returns list of (path, result).  If on_path is given it is called as
    on_path(path, result) right after each run and nothing is accumulated.
    An exception (subclass of Exception) escaping fn is recorded as result
    ('exception', exc)."""
    stats = stats if stats is not None else Stats()
    results = []
    pending = [[]]
    n = 0
    while pending:
        prefix = pending.pop()
        p = Path(prefix, stats)
        Path.cur = p
        try:
            try:
                out = fn(p)
            except Abort:
                pending.extend(p.pending)
                continue
            except Exception as e:       # noqa: exceptions of the code under test
                out = ('exception', e)
            n += 1
            stats.paths += 1
            if on_path:
                on_path(p, out)
            else:
                results.append((p, out))
            pending.extend(p.pending)
            if n > max_paths:
                raise HarnessError('path limit exceeded')
        finally:
            Path.cur = None
    return results


def model_int(m, e):
    return m.eval(bv(e) if not z3.is_expr(e) else e, model_completion=True).as_signed_long()
