"""Driving the C simulators (through their LLVM IR, Engine B) from the same symbolic machine state as Engine A."""
import atexit
import ctypes
import os
import re
import shutil
import subprocess
import tempfile
import z3
import bootstrap  # noqa
import llsym
import simharness as sh
from symx import SymInt, SymBool, Path, bv, W, HarnessError, Abort

REPO = bootstrap.REPO
C_SRC = os.path.join(REPO, 'c', 'csimulator.c')
_SCRATCH = None
_MODULES = {}


def scratch():
    """scratch directory outside /repo and /verif, removed at exit (shared by forked workers through the env)"""
    global _SCRATCH
    d = os.environ.get('VERIF_SCRATCH')
    if d and os.path.isdir(d):
        return d
    if _SCRATCH is None:
        _SCRATCH = tempfile.mkdtemp(prefix='skverif_')
        os.environ['VERIF_SCRATCH'] = _SCRATCH
        pid = os.getpid()

        def cleanup():
            if os.getpid() == pid:
                shutil.rmtree(_SCRATCH, ignore_errors=True)
        atexit.register(cleanup)
    return _SCRATCH


def prepare(contention):
    """emit IR for the current c/csimulator.c (idempotent per scratch dir) -> path"""
    out = os.path.join(scratch(), 'cmio.ll' if contention else 'plain.ll')
    if not os.path.exists(out):
        llsym.emit_ir(C_SRC, contention, scratch())
    return out


def module(contention):
    if contention not in _MODULES:
        m = llsym.Module(prepare(contention))
        m.field_names = llsym.fields_from_source(C_SRC, contention)
        st = m.structs['%struct.CSimulatorObject']
        if len(st.fields) != len(m.field_names):
            raise HarnessError('struct CSimulatorObject: %d fields in the IR, %d in the source' % (len(st.fields), len(m.field_names)))
        m.table_dims = {}
        for name in re.findall(r'^static byte (\w+)((?:\[\d+\])+);', open(C_SRC).read(), re.M):
            if name[0] in m.globals:
                m.table_dims[name[0]] = [int(x) for x in re.findall(r'\[(\d+)\]', name[1])]
        m.optables = {n: m.optable(n) for n in ('opcodes', 'after_CB', 'after_ED', 'after_DD', 'after_FD', 'after_DDCB', 'after_FDCB')}
        _MODULES[contention] = m
    return _MODULES[contention]


# ---------------------------------------------------------------------------
# compiled copies of the real source: table contents (ctypes) and the extension module (replay)

WRAP = r'''
#include "%(src)s"
byte* verif_table(const char* name, unsigned long* size) {
    init_lookup_tables();
%(cases)s
    return 0;
}
'''


def build_tables_lib(contention):
    d = scratch()
    tag = 'cmio' if contention else 'plain'
    so = os.path.join(d, 'tables_%s.so' % tag)
    if os.path.exists(so):
        return so
    m = module(contention)
    cases = '\n'.join('    if (strcmp(name, "%s") == 0) { *size = sizeof(%s); return (byte*)%s; }' % (n, n, n) for n in m.table_dims)
    c = os.path.join(d, 'wrap_%s.c' % tag)
    open(c, 'w').write(WRAP % dict(src=C_SRC, cases=cases))
    cmd = ['clang', '-O1', '-shared', '-fPIC', '-I' + llsym.python_include(), c, '-o', so]
    if contention:
        cmd.insert(1, '-DCONTENTION')
    subprocess.run(cmd, check=True, capture_output=True)
    return so


def c_tables(contention):
    """name -> (dims, bytes) of the tables as the real init_* functions fill them"""
    lib = ctypes.CDLL(build_tables_lib(contention), mode=ctypes.RTLD_GLOBAL)
    lib.verif_table.restype = ctypes.POINTER(ctypes.c_ubyte)
    out = {}
    for name, dims in module(contention).table_dims.items():
        size = ctypes.c_ulong(0)
        p = lib.verif_table(name.encode(), ctypes.byref(size))
        out[name] = (dims, bytes(p[:size.value]))
    return out


def compare_tables(contention):
    """every entry of every C table against the Python table of the same name -> (entries, mismatches)"""
    import importlib.util
    # private, unpatched copies of the Python modules (the worker's skoolkit.simtables may hold formula tables)
    def fresh(name):
        spec = importlib.util.spec_from_file_location('verif_fresh_' + name, os.path.join(REPO, 'skoolkit', name + '.py'))
        mod = importlib.util.module_from_spec(spec)
        spec.loader.exec_module(mod)
        return mod
    st = fresh('simtables')
    cm = fresh('cmiosimulator') if contention else None
    n, bad = 0, []
    for name, (dims, data) in c_tables(contention).items():
        if name.startswith('DELAYS_'):
            mach = name[7:]
            real = getattr(cm, name)
            for t in range(len(data)):
                n += 1
                if data[t] != sh.delay_concrete(mach, t) or (t < len(real) and data[t] != real[t]):
                    bad.append((name, t, data[t]))
            if len(data) != len(real):
                bad.append((name, 'len', len(data), len(real)))
            continue
        py = getattr(st, name)

        def walk(t, dims, off):
            nonlocal n
            if len(dims) == 1:
                vals = t if isinstance(t, tuple) else (t,)
                for k in range(dims[0]):
                    n += 1
                    if data[off + k] != vals[k]:
                        if len(bad) < 10:
                            bad.append((name, off + k, data[off + k], vals[k]))
                return
            stride = 1
            for d in dims[1:]:
                stride *= d
            for k in range(dims[0]):
                walk(t[k], dims[1:], off + k * stride)
        # scalar tables have no trailing pair dimension
        walk(py, dims, 0)
    return n, bad


def build_extension(contention):
    """compile the real source as an importable extension module in the scratch dir -> module object"""
    import importlib.util
    import sysconfig
    d = scratch()
    name = 'ccmiosimulator' if contention else 'csimulator'
    so = os.path.join(d, name + sysconfig.get_config_var('EXT_SUFFIX'))
    if not os.path.exists(so):
        cmd = ['clang', '-O1', '-shared', '-fPIC', '-I' + llsym.python_include(), C_SRC, '-o', so]
        if contention:
            cmd.insert(1, '-DCONTENTION')
        subprocess.run(cmd, check=True, capture_output=True)
    spec = importlib.util.spec_from_file_location(name, so)
    mod = importlib.util.module_from_spec(spec)
    spec.loader.exec_module(mod)
    return mod


# ---------------------------------------------------------------------------
def table_fn(name, dims, tabs, mach):
    if name.startswith('DELAYS_'):
        m = name[7:]

        def f(idx):
            c = z3.simplify(idx[0])
            if z3.is_bv_value(c):
                return z3.BitVecVal(sh.delay_concrete(m, c.as_long()), 8)
            t = SymInt(c, 0, sh.MACHINES[m]['frame'] - 1)
            return z3.Extract(7, 0, sh.delay_term(m, t))
        return f

    def f(idx):
        t = tabs[name]
        for ix, d in zip(idx, dims):
            s = z3.simplify(ix)
            if z3.is_bv_value(s):
                t = t[s.as_long()]
            else:
                t = t[SymInt(s, 0, d - 1)]
        return z3.Extract(7, 0, bv(t))
    return f


class CMachine:
    """the C simulator (plain or contended build) positioned on the same symbolic state as a sh.Machine"""

    def __init__(self, contention, mach='48K', tracer=False):
        self.contention, self.mach, self.tracer = contention, mach, tracer
        self.m = module(contention)
        self.M = sh.MACHINES[mach]

    def state(self, regs0, mem0, o7ffd=None, banks=None, roms=None):
        st = llsym.CState()
        st.regs = list(regs0)
        if self.mach == '48K':
            st.mem = mem0
        else:
            st.mem = None
            st.banks = list(banks)
            st.roms = list(roms)
            st.out7ffd = z3.Extract(7, 0, o7ffd)
        st.fields = {'frame_duration': z3.BitVecVal(self.M['frame'], 32), 'int_active': z3.BitVecVal(self.M['int_active'], 32)}
        if self.contention:
            st.fields['t0'] = z3.BitVecVal(self.M['c0'] - 23, 32)
            st.fields['t1'] = z3.BitVecVal(self.M['c1'], 32)
            st.contend = 'contend_48k' if self.mach == '48K' else 'contend_128k'
        if st.out7ffd is None:
            st.out7ffd = z3.BitVecVal(0, 8)
        for t in ('in_a_n_tracer', 'in_r_c_tracer', 'ini_tracer', 'out_tracer'):
            st.tracers[t] = self.tracer
        st.tables = {n: table_fn(n, d, sh._TABLES, self.mach) for n, d in self.m.table_dims.items()}
        return st

    def paged(self, st, page, rom):
        st.mem128 = [('rom', rom), ('bank', 5), ('bank', 2), ('bank', page)]

    def run_handler(self, path, st, table, op):
        """execute the handler of one dispatch slot directly (no opcode fetch)"""
        func, lookup, idx, args = self.m.optables[table][op]
        st.args = args
        it = llsym.Interp(self.m, self.m.field_names, st, path, self.m.table_dims)
        lk = llsym.NULL
        if lookup:
            gt, _ = self.m.global_type(lookup)
            lk = it.gep(llsym.Ptr(('table', lookup)), gt, [z3.BitVecVal(i, 64) for i in idx])
        it.call(func, [llsym.Ptr(('self',)), lk, llsym.Ptr(('args',))])
        return it

    def run_function(self, path, st, fname, args, stubs=None):
        it = llsym.Interp(self.m, self.m.field_names, st, path, self.m.table_dims)
        if stubs:
            it.stubs = stubs
        r = it.call(fname, args)
        return it, r
