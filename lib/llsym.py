"""Engine B: symbolic execution of the LLVM IR clang emits for c/csimulator.c.

The IR text (clang -O1 -S -emit-llvm) is parsed by a small reader and interpreted with the same path/forking core as
Engine A (symx.Path).  Integers are z3 bit-vectors of the IR width (machine words wrap, as in C); a pointer is
(region, byte offset).  Anything outside the supported subset raises HarnessError naming the instruction.
"""
import os
import re
import subprocess
import tempfile
import z3
from symx import Path, HarnessError, Inconclusive, SymInt, W

PY_INCLUDE = None


def python_include():
    global PY_INCLUDE
    if PY_INCLUDE is None:
        import sysconfig
        PY_INCLUDE = sysconfig.get_paths()['include']
    return PY_INCLUDE


def emit_ir(c_path, contention, outdir):
    out = os.path.join(outdir, 'cmio.ll' if contention else 'plain.ll')
    cmd = ['clang', '-O1', '-S', '-emit-llvm', '-I' + python_include(), c_path, '-o', out]
    if contention:
        cmd.insert(1, '-DCONTENTION')
    subprocess.run(cmd, check=True, capture_output=True)
    return out


# ---------------------------------------------------------------------------
# types

class Ty:
    pass


class IntTy(Ty):
    def __init__(self, w): self.w = w
    def size(self): return max(1, (self.w + 7) // 8)
    def __repr__(self): return 'i%d' % self.w


class PtrTy(Ty):
    def __init__(self, to): self.to = to
    def size(self): return 8
    def __repr__(self): return '%r*' % (self.to,)


class ArrTy(Ty):
    def __init__(self, n, el): self.n, self.el = n, el
    def size(self): return self.n * self.el.size()
    def __repr__(self): return '[%d x %r]' % (self.n, self.el)


class StructTy(Ty):
    def __init__(self, name): self.name, self.fields = name, None
    def size(self):
        return self.offsets()[-1]
    def offsets(self):
        off, out, al = 0, [], 1
        for f in self.fields:
            a = align_of(f)
            al = max(al, a)
            off = (off + a - 1) // a * a
            out.append(off)
            off += f.size()
        out.append((off + al - 1) // al * al)
        return out
    def __repr__(self): return self.name


class OpaqueTy(Ty):
    def __init__(self, s): self.s = s
    def size(self): return 8
    def __repr__(self): return self.s


def align_of(t):
    if isinstance(t, IntTy): return min(8, t.size())
    if isinstance(t, ArrTy): return align_of(t.el)
    if isinstance(t, StructTy): return max([align_of(f) for f in t.fields] or [1])
    return 8


class Module:
    def __init__(self, path):
        self.src = open(path).read()
        self.structs = {}
        self.funcs = {}
        self.globals = {}
        self._parse()

    # -- type parsing -------------------------------------------------------
    def ty(self, s):
        s = s.strip()
        t, rest = self._ty(s)
        if rest.strip():
            raise HarnessError('cannot parse type %r' % s)
        return t

    def _ty(self, s):
        s = s.lstrip()
        m = re.match(r'i(\d+)', s)
        if m:
            t, s = IntTy(int(m.group(1))), s[m.end():]
        elif s.startswith('['):
            m = re.match(r'\[(\d+) x ', s)
            el, rest = self._ty(s[m.end():])
            rest = rest.lstrip()
            assert rest.startswith(']'), s
            t, s = ArrTy(int(m.group(1)), el), rest[1:]
        elif s.startswith('%'):
            m = re.match(r'%[\w.]+', s)
            name = m.group()
            t = self.structs.setdefault(name, StructTy(name))
            s = s[m.end():]
        elif s.startswith('{'):
            depth, i = 0, 0
            for i, ch in enumerate(s):
                depth += ch == '{'
                depth -= ch == '}'
                if depth == 0:
                    break
            t = StructTy('anon')
            t.fields = [self.ty(x) for x in split_top(s[1:i])]
            s = s[i + 1:]
        elif s.startswith('void') or s.startswith('double') or s.startswith('float') or s.startswith('...'):
            m = re.match(r'void|double|float|\.\.\.', s)
            t, s = OpaqueTy(m.group()), s[m.end():]
        else:
            raise HarnessError('cannot parse type %r' % s)
        while True:
            s2 = s.lstrip()
            if s2.startswith('*'):
                t, s = PtrTy(t), s2[1:]
            elif s2.startswith('('):
                depth = 0
                for i, ch in enumerate(s2):
                    depth += ch == '('
                    depth -= ch == ')'
                    if depth == 0:
                        break
                t, s = OpaqueTy('fn'), s2[i + 1:]
            else:
                break
        return t, s

    def _parse(self):
        src = self.src
        for m in re.finditer(r'^(%[\w.]+) = type (\{.*\}|opaque)$', src, re.M):
            self.structs.setdefault(m.group(1), StructTy(m.group(1)))
        for m in re.finditer(r'^(%[\w.]+) = type (\{.*\}|opaque)$', src, re.M):
            st = self.structs[m.group(1)]
            st.fields = [] if m.group(2) == 'opaque' else [self.ty(x) for x in split_top(m.group(2)[1:-1].strip())]
        for m in re.finditer(r'^@([\w.]+) = (?:[a-z_]+ )*?(global|constant) (.*)$', src, re.M):
            self.globals[m.group(1)] = m.group(3)
        for m in re.finditer(r'^define [^@]*@(\w+)\((.*?)\)[^\n]*\{\n(.*?)^\}', src, re.S | re.M):
            name, params, body = m.groups()
            pnames = re.findall(r'(%\d+)(?=\s*(?:,|$))', params)
            blocks, cur = {}, None
            first = None
            for line in body.split('\n'):
                line = line.split(', !')[0].split(' #')[0].rstrip() if not line.lstrip().startswith('switch') else line
                if not line.strip():
                    continue
                lm = re.match(r'^(\d+):', line)
                if lm:
                    cur = lm.group(1)
                    blocks[cur] = []
                    continue
                if cur is None:
                    cur = str(len(pnames))
                    blocks[cur] = []
                if first is None:
                    first = cur
                blocks[cur].append(line.strip())
            self.funcs[name] = (pnames, blocks, first)
        # switch statements span lines: rejoin
        for name, (pn, blocks, first) in self.funcs.items():
            for lbl, ins in blocks.items():
                out, acc = [], None
                for line in ins:
                    if acc is not None:
                        acc += ' ' + line
                        if ']' in line:
                            out.append(acc); acc = None
                        continue
                    if line.startswith('switch') and ']' not in line:
                        acc = line
                        continue
                    out.append(line)
                blocks[lbl] = out

    def global_type(self, name):
        txt = self.globals[name]
        t, rest = self._ty(txt)
        return t, rest.strip()

    def optable(self, name):
        """-> list of 256 (func name or None, lookup table name or None, lookup const indices, [7 ints])"""
        txt = self.globals[name]
        out = []
        pat = re.compile(r'%struct\.OpcodeFunction (?:(zeroinitializer)|\{ [^@{}]*?(@(\w+)|null), i8\* (null|getelementptr inbounds \(([^@]*)@(\w+), ([^)]*)\)|bitcast \([^@]*@(\w+) to i8\*\)), '
                         r'\[7 x i32\] (zeroinitializer|\[([^\]]*)\]) \})')
        for m in pat.finditer(txt):
            if m.group(1):
                out.append((None, None, [], [0] * 7))
                continue
            func = m.group(3)
            lookup = m.group(6) or m.group(8)
            idx = [int(x) for x in re.findall(r'i\d+ (\d+)', m.group(7))] if m.group(6) else []
            args = [0] * 7 if m.group(9) == 'zeroinitializer' else [int(x) for x in re.findall(r'i32 (-?\d+)', m.group(10))]
            out.append((func, lookup, idx, args))
        if len(out) != 256:
            raise HarnessError('dispatch table %s: parsed %d entries' % (name, len(out)))
        return out

    def const_array(self, name):
        """integer contents of a constant global array, flattened"""
        txt = self.globals[name]
        t, rest = self._ty(txt)
        if rest.startswith('zeroinitializer'):
            return [0] * (t.size() // elem_size(t))
        return [int(x) for x in re.findall(r'i\d+ (-?\d+)', rest.split(', align')[0])]


def elem_size(t):
    while isinstance(t, ArrTy):
        t = t.el
    return t.size()


def split_top(s):
    out, depth, cur = [], 0, ''
    for ch in s:
        if ch in '([{<':
            depth += 1
        elif ch in ')]}>':
            depth -= 1
        if ch == ',' and depth == 0:
            out.append(cur.strip()); cur = ''
        else:
            cur += ch
    if cur.strip():
        out.append(cur.strip())
    return out


# ---------------------------------------------------------------------------
class Ptr:
    __slots__ = ('region', 'off', 'terms')

    def __init__(self, region, off=None, terms=()):
        self.region = region
        self.off = off if off is not None else z3.BitVecVal(0, 64)   # constant part (or whole offset) as BV64
        self.terms = tuple(terms)                                     # symbolic part: ((index BV64, stride int), ...)

    def is_null(self):
        return self.region is None

    def __repr__(self):
        return 'Ptr(%r, %s, %s)' % (self.region, z3.simplify(self.off), self.terms)


NULL = Ptr(None)


def fields_from_source(c_path, contention):
    """field names of struct CSimulatorObject in declaration order (honouring #ifdef CONTENTION)"""
    src = open(c_path).read()
    m = re.search(r'typedef struct CSimulatorObject \{(.*?)\} CSimulatorObject;', src, re.S)
    names, skip = [], False
    for line in m.group(1).split('\n'):
        line = line.strip()
        if line.startswith('#ifdef CONTENTION'):
            skip = not contention; continue
        if line.startswith('#endif'):
            skip = False; continue
        if skip or not line:
            continue
        if line == 'PyObject_HEAD':
            names.append('ob_base'); continue
        mm = re.match(r'.*?(\w+)(\[\d+\])?;$', line)
        if mm:
            names.append(mm.group(1))
    return names


class CState:
    """the C simulator object as seen by the interpreter"""

    def __init__(self):
        self.regs = None          # list of 30 BV64
        self.mem = None           # z3 Array BV16->BV8 (48K flat) or None (128K)
        self.roms = None          # [Array, Array]
        self.banks = None         # [Array x 8]
        self.mem128 = None        # list of 4 ('rom', i) / ('bank', i)
        self.out7ffd = None       # BV8
        self.fields = {}          # scalar fields: name -> BV (frame_duration, int_active, t0, t1)
        self.tracers = {}         # in_a_n_tracer etc -> bool (present?)
        self.read_port_fn = False
        self.contend = None       # 'contend_48k' / 'contend_128k'
        self.events = []          # port events ('in', port) / ('out', port, value, offset)
        self.inputs = []          # symbolic port readings (BV64)
        self.tables = {}          # C table name -> callable(indices list of BV64) -> BV8
        self.args = [0] * 7
        self.allocas = {}


class Interp:
    def __init__(self, module, field_names, state, path, table_dims):
        self.m, self.fn, self.st, self.path = module, field_names, state, path
        self.table_dims = table_dims
        self.nalloca = 0
        self.pyvals = {}
        self.steps = 0

    # -- values -------------------------------------------------------------
    def val(self, env, tok, ty):
        tok = tok.strip()
        if tok.startswith('%'):
            return env[tok]
        if tok == 'null':
            return NULL
        if tok in ('true', 'false'):
            return z3.BoolVal(tok == 'true')
        if tok == 'undef' or tok == 'poison':
            t = self.m.ty(ty)
            return z3.BitVecVal(0, t.w) if isinstance(t, IntTy) else NULL
        if tok.startswith('@'):
            return self.global_ptr(tok[1:])
        if tok.startswith('getelementptr') or tok.startswith('bitcast'):
            return self.const_expr(tok)
        t = self.m.ty(ty)
        if isinstance(t, IntTy):
            if t.w == 1:
                return z3.BoolVal(int(tok) != 0)
            return z3.BitVecVal(int(tok), t.w)
        raise HarnessError('cannot evaluate operand %r of type %s' % (tok, ty))

    def global_ptr(self, name):
        if name in self.table_dims:
            return Ptr(('table', name))
        if name in self.m.funcs:
            return Ptr(('func', name))
        if name in self.m.globals:
            return Ptr(('global', name))
        return Ptr(('pyobj', name))        # external (CPython) object

    def const_expr(self, tok):
        m = re.match(r'getelementptr inbounds \((.+?), (.+?)\* @([\w.]+)((?:, i\d+ \d+)*)\)$', tok)
        if m:
            bty, _, g, idxs = m.groups()
            p = self.global_ptr(g)
            return self.gep(p, self.m.ty(bty), [(z3.BitVecVal(int(v), 64)) for v in re.findall(r', i\d+ (\d+)', idxs)])
        m = re.match(r'bitcast \(.+?@([\w.]+) to .+\)$', tok)
        if m:
            return self.global_ptr(m.group(1))
        raise HarnessError('constant expression: ' + tok)

    @staticmethod
    def ext(x, w, signed=False):
        if z3.is_bool(x):
            x = z3.If(x, z3.BitVecVal(1, 1), z3.BitVecVal(0, 1))
        d = w - x.size()
        if d == 0:
            return x
        if d < 0:
            return z3.Extract(w - 1, 0, x)
        return z3.SignExt(d, x) if signed else z3.ZeroExt(d, x)

    # -- GEP ----------------------------------------------------------------
    def gep(self, p, bty, idxs):
        """idxs: list of BV (any width).  Returns a new Ptr."""
        if p.is_null():
            raise HarnessError('GEP on null')
        region = p.region
        if isinstance(bty, StructTy) and bty.name == '%struct.CSimulatorObject' and region == ('self',):
            first = z3.simplify(idxs[0])
            if not (z3.is_bv_value(first) and first.as_long() == 0) or len(idxs) < 2:
                raise HarnessError('unexpected GEP into self')
            f = z3.simplify(idxs[1]).as_long()
            name = self.fn[f]
            if len(idxs) == 2:
                return Ptr(('field', name))
            sub = self.ext(idxs[2], 64)
            if len(idxs) > 3:
                raise HarnessError('deep GEP into self.' + name)
            return Ptr(('fieldarr', name), sub)
        off, terms = p.off, list(p.terms)
        ty = bty
        for k, ix in enumerate(idxs):
            ix = z3.simplify(self.ext(ix, 64, signed=True))
            if k == 0:
                stride = ty.size()
            elif isinstance(ty, ArrTy):
                ty = ty.el
                stride = ty.size()
            elif isinstance(ty, StructTy):
                if not z3.is_bv_value(ix):
                    raise HarnessError('symbolic struct field index')
                f = ix.as_long()
                off = off + ty.offsets()[f]
                ty = ty.fields[f]
                continue
            else:
                raise HarnessError('GEP through %r' % ty)
            if z3.is_bv_value(ix):
                off = off + ix.as_signed_long() * stride
            elif region[0] == 'table':
                terms.append((ix, stride))
            else:
                off = off + ix * stride
        return Ptr(region, z3.simplify(off), terms)

    # -- memory ---------------------------------------------------------------
    def concrete_off(self, p, what):
        if p.terms:
            raise HarnessError('symbolic index into ' + what)
        o = z3.simplify(p.off)
        if not z3.is_bv_value(o):
            raise HarnessError('symbolic offset into %s: %s' % (what, o))
        return o.as_signed_long()

    def array_of(self, region):
        st = self.st
        if region == ('mem',):
            return st.mem
        if region[0] == 'rom':
            return st.roms[region[1]]
        if region[0] == 'bank':
            return st.banks[region[1]]
        raise HarnessError('no array for %r' % (region,))

    def set_array(self, region, arr):
        st = self.st
        if region == ('mem',):
            st.mem = arr
        elif region[0] == 'rom':
            st.roms[region[1]] = arr
        else:
            st.banks[region[1]] = arr

    def load(self, p, ty):
        st = self.st
        if p.is_null():
            raise HarnessError('load through null')
        r = p.region
        kind = r[0]
        t = self.m.ty(ty)
        if kind == 'field':
            return self.load_field(r[1], t)
        if kind == 'fieldarr':
            name = r[1]
            if name == 'mem128':
                k = self.path.realise(self.ext(p.off, W), 'mem128-slot')
                return Ptr(st.mem128[k])
            if name in ('roms', 'banks'):
                k = self.path.realise(self.ext(p.off, W), name + '-index')
                return Ptr(('rom' if name == 'roms' else 'bank', k))
            raise HarnessError('load of self.%s[...]' % name)
        if kind == 'regs':
            return st.regs[self.concrete_off(p, 'registers') // 8]
        if kind in ('mem', 'rom', 'bank'):
            if not isinstance(t, IntTy) or t.w != 8:
                raise HarnessError('non-byte load from memory')
            size = 65536 if kind == 'mem' else 16384
            off = z3.simplify(p.off)
            self.path.obligation('C index-in-range:memory read', z3.ULT(off, size))
            return z3.simplify(z3.Select(self.array_of(r), z3.Extract(15, 0, off)))
        if kind == 'args':
            a = st.args[self.concrete_off(p, 'args') // 4]
            return a if z3.is_expr(a) else z3.BitVecVal(a, 32)
        if kind == 'table':
            return self.load_table(r[1], p, t)
        if kind == 'alloca':
            a = st.allocas[r[1]]
            o = self.concrete_off(p, 'alloca')
            if o not in a:
                raise HarnessError('read of uninitialised local')
            v = a[o]
            return v
        if kind == 'global':
            vals = self.m.const_array(r[1])
            gt, _ = self.m.global_type(r[1])
            o = self.concrete_off(p, 'global ' + r[1])
            es = elem_size(gt)
            return z3.BitVecVal(vals[o // es], t.w)
        if kind in ('pyobj', 'pyval'):
            # reference count: report "immortal" so that decref code takes its no-op branch
            return z3.BitVecVal(0xFFFFFFFF, t.w) if isinstance(t, IntTy) else Ptr(('pyobj', 'type'))
        raise HarnessError('load from %r' % (r,))

    def load_field(self, name, t):
        st = self.st
        if name == 'registers':
            return Ptr(('regs',))
        if name == 'memory':
            return Ptr(('mem',)) if st.mem is not None else NULL
        if name in st.fields:
            return st.fields[name]
        if name == 'out7ffd':
            return st.out7ffd
        if name in ('in_a_n_tracer', 'in_r_c_tracer', 'ini_tracer', 'out_tracer'):
            return Ptr(('pyobj', name)) if st.tracers.get(name) else NULL
        if name == 'read_port':
            return Ptr(('func', 'read_port')) if st.read_port_fn else NULL
        if name == 'contend':
            return Ptr(('func', st.contend))
        if name in ('registers_obj', 'memory_obj', 'tracer'):
            return Ptr(('pyobj', name))
        raise HarnessError('load of self.' + name)

    def load_table(self, name, p, t):
        dims = self.table_dims[name]            # e.g. [2, 256, 256, 2]
        strides = []
        s = 1
        for d in reversed(dims):
            strides.append(s); s *= d
        strides.reverse()
        const = z3.simplify(p.off)
        if not z3.is_bv_value(const):
            raise HarnessError('table %s: non-constant base offset' % name)
        c = const.as_signed_long()
        idx = []
        for d, sd in zip(dims, strides):
            k, c = divmod(c, sd)
            idx.append(z3.BitVecVal(k, 64))
        for ix, stride in p.terms:
            if stride not in strides:
                raise HarnessError('table %s indexed with stride %d' % (name, stride))
            j = strides.index(stride)
            idx[j] = z3.simplify(idx[j] + ix)
        for j, (ix, d) in enumerate(zip(idx, dims)):
            self.path.obligation('C index-in-range:table %s dim %d' % (name, j), z3.ULT(ix, d))
        v = self.st.tables[name](idx)
        return self.ext(v, t.w)

    def store(self, p, ty, v):
        st = self.st
        if p.is_null():
            raise HarnessError('store through null')
        r = p.region
        kind = r[0]
        if kind == 'regs':
            st.regs[self.concrete_off(p, 'registers') // 8] = v
        elif kind in ('mem', 'rom', 'bank'):
            size = 65536 if kind == 'mem' else 16384
            off = z3.simplify(p.off)
            self.path.obligation('C index-in-range:memory write', z3.ULT(off, size))
            if kind == 'rom':
                self.path.obligation('C write to a ROM', z3.BoolVal(False))
            self.set_array(r, z3.Store(self.array_of(r), z3.Extract(15, 0, off), v))
        elif kind == 'alloca':
            st.allocas[r[1]][self.concrete_off(p, 'alloca')] = v
        elif kind == 'args':
            # hit/miss counters kept in the handler's argument array (dec_a): concrete when they are plain increments
            vs = z3.simplify(v)
            st.args[self.concrete_off(p, 'args') // 4] = vs.as_long() if z3.is_bv_value(vs) else vs
        elif kind == 'field':
            if r[1] == 'out7ffd':
                st.out7ffd = v
            else:
                raise HarnessError('store to self.' + r[1])
        elif kind == 'fieldarr':
            if r[1] == 'mem128':
                k = self.path.realise(self.ext(p.off, W), 'mem128-slot')
                if v.is_null() or v.region[0] not in ('rom', 'bank'):
                    raise HarnessError('mem128 set to %r' % (v,))
                st.mem128[k] = v.region
            else:
                raise HarnessError('store to self.%s[...]' % r[1])
        elif kind in ('pyobj', 'pyval'):
            pass
        else:
            raise HarnessError('store to %r' % (r,))

    # -- execution --------------------------------------------------------------
    def call(self, fname, args):
        pnames, blocks, first = self.m.funcs[fname]
        env = dict(zip(pnames, args))
        cur, prev = first, None
        while True:
            nxt = None
            for ins in blocks[cur]:
                self.steps += 1
                if self.steps > 200000:
                    raise HarnessError('step limit in ' + fname)
                r = self.step(env, ins, prev)
                if r is not None:
                    if r[0] == 'br':
                        nxt = r[1]
                        break
                    return r[1]
            if nxt is None:
                raise HarnessError('fell off block %s of %s' % (cur, fname))
            prev, cur = cur, nxt

    def step(self, env, ins, prev):
        m = re.match(r'(%\d+) = (.*)', ins)
        dst, rhs = (m.group(1), m.group(2)) if m else (None, ins)
        op = rhs.split()[0]
        if op in ('tail', 'notail', 'musttail'):
            rhs = rhs.split(' ', 1)[1]
            op = rhs.split()[0]
        if op == 'getelementptr':
            mm = re.match(r'getelementptr (?:inbounds )?(.+?), (.+?)\* (%\d+|@[\w.]+)((?:, i\d+ [^,]+)*)$', rhs)
            if not mm:
                raise HarnessError('GEP: ' + rhs)
            bty, _, base, idxs = mm.groups()
            p = env[base] if base.startswith('%') else self.global_ptr(base[1:])
            il = [self.val(env, v, t) for t, v in re.findall(r', (i\d+) ([^,]+)', idxs)]
            env[dst] = self.gep(p, self.m.ty(bty), il)
            return
        if op == 'load':
            body = rhs[len('load '):].split(', align')[0]
            if body.startswith('volatile '):
                body = body[len('volatile '):]
            parts = split_top(body)
            ty = parts[0]
            src = parts[1].rsplit(' ', 1)[1]
            p = env[src] if src.startswith('%') else self.global_ptr(src[1:])
            env[dst] = self.load(p, ty)
            return
        if op == 'store':
            body = rhs[len('store '):].split(', align')[0]
            parts = split_top(body)
            vty, vtok = self._ty_tok(parts[0])
            pty, ptok = self._ty_tok(parts[1])
            v = self.val(env, vtok, vty)
            p = env[ptok] if ptok.startswith('%') else self.global_ptr(ptok[1:])
            self.store(p, vty, v)
            return
        if op in ('add', 'sub', 'mul', 'and', 'or', 'xor', 'shl', 'lshr', 'ashr', 'urem', 'udiv', 'srem', 'sdiv'):
            mm = re.match(r'\w+ (?:nuw |nsw |exact )*(i\d+) (\S+), (\S+)$', rhs)
            ty, a, b = mm.groups()
            a, b = self.val(env, a, ty), self.val(env, b, ty)
            if ty == 'i1':
                env[dst] = {'and': z3.And, 'or': z3.Or, 'xor': z3.Xor}[op](a, b)
                return
            env[dst] = {'add': lambda: a + b, 'sub': lambda: a - b, 'mul': lambda: a * b, 'and': lambda: a & b, 'or': lambda: a | b,
                        'xor': lambda: a ^ b, 'shl': lambda: a << b, 'lshr': lambda: z3.LShR(a, b), 'ashr': lambda: a >> b,
                        'urem': lambda: self.urem(a, b), 'udiv': lambda: self.udiv(a, b),
                        'srem': lambda: z3.SRem(a, b), 'sdiv': lambda: a / b}[op]()
            return
        if op in ('zext', 'sext', 'trunc'):
            mm = re.match(r'\w+ (i\d+) (\S+) to (i\d+)$', rhs)
            t1, v, t2 = mm.groups()
            x = self.val(env, v, t1)
            w2 = int(t2[1:])
            if op == 'trunc':
                env[dst] = (z3.Extract(0, 0, x) == 1) if w2 == 1 else z3.Extract(w2 - 1, 0, x)
            else:
                env[dst] = self.ext(x, w2, signed=(op == 'sext'))
            return
        if op == 'bitcast':
            mm = re.match(r'bitcast (.+?) (%\d+|@[\w.]+) to ', rhs)
            tok = mm.group(2)
            env[dst] = env[tok] if tok.startswith('%') else self.global_ptr(tok[1:])
            return
        if op == 'icmp':
            mm = re.match(r'icmp (\w+) (.+) (\S+), (\S+)$', rhs)
            pred, ty, a, b = mm.groups()
            a, b = self.val(env, a, ty), self.val(env, b, ty)
            if isinstance(a, Ptr) or isinstance(b, Ptr):
                same = a.is_null() == b.is_null() and (a.is_null() or (a.region == b.region and z3.is_true(z3.simplify(a.off == b.off))))
                if not (a.is_null() or b.is_null()) and not (a.region[0] in ('pyobj', 'pyval', 'global') and b.region[0] in ('pyobj', 'pyval', 'global')):
                    # (named CPython objects - None, a callback - are distinct objects: comparing them is decidable)
                    raise HarnessError('comparison of two non-null pointers')
                env[dst] = z3.BoolVal(same if pred == 'eq' else not same)
                return
            if z3.is_bool(a):
                env[dst] = (a == b) if pred == 'eq' else (a != b)
                return
            env[dst] = {'eq': lambda: a == b, 'ne': lambda: a != b, 'ult': lambda: z3.ULT(a, b), 'ule': lambda: z3.ULE(a, b),
                        'ugt': lambda: z3.UGT(a, b), 'uge': lambda: z3.UGE(a, b), 'slt': lambda: a < b, 'sle': lambda: a <= b,
                        'sgt': lambda: a > b, 'sge': lambda: a >= b}[pred]()
            return
        if op == 'select':
            parts = split_top(rhs[len('select '):])
            cty, ctok = self._ty_tok(parts[0])
            t1, a = self._ty_tok(parts[1])
            t2, b = self._ty_tok(parts[2])
            c = self.val(env, ctok, 'i1')
            a, b = self.val(env, a, t1), self.val(env, b, t2)
            if isinstance(a, Ptr) or isinstance(b, Ptr):
                env[dst] = a if self.path.branch(c) else b
            else:
                env[dst] = z3.If(c, a, b)
            return
        if op == 'phi':
            mm = re.match(r'phi (.+?) (\[.*)$', rhs)
            ty, rest = mm.groups()
            for v, lbl in re.findall(r'\[ (.+?), %(\w+) \]', rest):
                if lbl == prev:
                    env[dst] = self.val(env, v, ty)
                    return
            raise HarnessError('phi: no incoming value for %s in %s' % (prev, rhs))
        if op == 'br':
            mm = re.match(r'br label %(\w+)$', rhs)
            if mm:
                return ('br', mm.group(1))
            mm = re.match(r'br i1 (\S+), label %(\w+), label %(\w+)$', rhs)
            c, a, b = mm.groups()
            c = self.val(env, c, 'i1')
            return ('br', a if self.path.branch(c) else b)
        if op == 'switch':
            mm = re.match(r'switch (i\d+) (\S+), label %(\w+) \[(.*)\]', rhs)
            ty, v, default, cases = mm.groups()
            x = self.val(env, v, ty)
            for cv, lbl in re.findall(r'i\d+ (-?\d+), label %(\w+)', cases):
                if self.path.branch(x == int(cv)):
                    return ('br', lbl)
            return ('br', default)
        if op == 'ret':
            mm = re.match(r'ret (.+?) (\S+)$', rhs)
            if mm and mm.group(1) != 'void':
                return ('ret', self.val(env, mm.group(2), mm.group(1)))
            return ('ret', None)
        if op == 'alloca':
            mm = re.match(r'alloca (.+?)(?:, align \d+)?$', rhs)
            self.nalloca += 1
            self.st.allocas[self.nalloca] = {}
            env[dst] = Ptr(('alloca', self.nalloca))
            return
        if op == 'call':
            return self.do_call(env, dst, rhs)
        if op == 'unreachable':
            raise HarnessError('reached unreachable')
        raise HarnessError('unsupported instruction: ' + ins)

    @staticmethod
    def _ty_tok(s):
        s = re.sub(r'\b(noundef|nonnull|nocapture|readonly|readnone|signext|zeroext|writeonly|returned|align \d+|dereferenceable\(\d+\))\s+', '', s.strip() + ' ').strip()
        i = s.rfind(' ')
        depth = 0
        # the operand is the last token unless it is a constant expression
        m = re.match(r'(.+?) ((?:getelementptr|bitcast).*)$', s)
        if m:
            return m.group(1), m.group(2)
        return s[:i], s[i + 1:]

    def urem(self, a, b):
        bs = z3.simplify(b)
        as_ = z3.simplify(a)
        if z3.is_bv_value(bs) and z3.is_bv_value(as_) and bs.as_long():
            return z3.BitVecVal(as_.as_long() % bs.as_long(), a.size())
        if z3.is_bv_value(bs):
            n = bs.as_long()
            if n & (n - 1) == 0:
                return a & (n - 1)
            return self._divmod(a, n)[1]
        return z3.URem(a, b)

    def udiv(self, a, b):
        bs = z3.simplify(b)
        as_ = z3.simplify(a)
        if z3.is_bv_value(bs) and z3.is_bv_value(as_) and bs.as_long():
            return z3.BitVecVal(as_.as_long() // bs.as_long(), a.size())
        if z3.is_bv_value(bs):
            n = bs.as_long()
            if n & (n - 1) == 0:
                return z3.LShR(a, n.bit_length() - 1)
            return self._divmod(a, n)[0]
        return z3.UDiv(a, b)

    def _divmod(self, a, n):
        """unsigned a / n with quotient/remainder variables shared with Engine A's encoding (same keys)"""
        w = a.size()
        hi = (1 << w) - 1
        if w > 40:
            # the 64-bit clock: its bound (T < 2^32 plus a few instructions) is an obligation, not an assumption
            hi = (1 << 40) - 1
            self.path.obligation('C 64-bit division operand < 2^40', z3.ULE(a, hi))
        s = SymInt(z3.simplify(self.ext(a, W)), 0, hi)
        q, r = s._divmod_const(n)
        return z3.Extract(w - 1, 0, q.e), z3.Extract(w - 1, 0, r.e)

    # -- calls -------------------------------------------------------------------
    def do_call(self, env, dst, rhs):
        st = self.st
        mm = re.match(r'call (?:[a-z_]+ )*?(.+?) (@[\w.]+|%\d+)\((.*)\)$', rhs)
        if not mm:
            raise HarnessError('call: ' + rhs)
        rty, callee, argstr = mm.groups()
        # variadic signature "T (i8*, ...)" precedes the callee; strip it from the return type
        rty = rty.split(' (')[0]
        args = []
        for a in split_top(argstr):
            ty, tok = self._ty_tok(a)
            args.append((ty, tok))
        name = callee[1:] if callee.startswith('@') else None
        if name is None:
            fp = env[callee]
            if fp.is_null() or fp.region[0] != 'func':
                raise HarnessError('indirect call through %r' % (fp,))
            name = fp.region[1]
        if name.startswith('llvm.lifetime') or name in ('_Py_Dealloc', 'Py_XDECREF', 'PyErr_CheckSignals', 'PyErr_Clear'):
            return
        vals = [self.val(env, tok, ty) for ty, tok in args]
        if name.startswith('llvm.fshl.'):
            a, b, c = vals
            w = a.size()
            sh = self.ext(z3.URem(c, z3.BitVecVal(w, w)), 2 * w)
            env[dst] = z3.Extract(2 * w - 1, w, z3.Concat(a, b) << sh)
            return
        if name.startswith('llvm.fshr.'):
            a, b, c = vals
            w = a.size()
            sh = self.ext(z3.URem(c, z3.BitVecVal(w, w)), 2 * w)
            env[dst] = z3.Extract(w - 1, 0, z3.LShR(z3.Concat(a, b), sh))
            return
        if name.startswith('llvm.umax.'):
            env[dst] = z3.If(z3.UGE(vals[0], vals[1]), vals[0], vals[1]); return
        if name.startswith('llvm.umin.'):
            env[dst] = z3.If(z3.ULE(vals[0], vals[1]), vals[0], vals[1]); return
        if name.startswith('llvm.memcpy.'):
            d, s_, n = vals[0], vals[1], z3.simplify(vals[2]).as_long()
            if d.region[0] != 'alloca' or s_.region[0] != 'global':
                raise HarnessError('memcpy %r <- %r' % (d, s_))
            gvals = self.m.const_array(s_.region[1])
            gt, _ = self.m.global_type(s_.region[1])
            es = elem_size(gt)
            so, do = self.concrete_off(s_, 'memcpy src'), self.concrete_off(d, 'memcpy dst')
            for k in range(0, n, es):
                st.allocas[d.region[1]][do + k] = z3.BitVecVal(gvals[(so + k) // es], es * 8)
            return
        if name == 'PyErr_Occurred':
            env[dst] = NULL; return
        if name == '_Py_BuildValue_SizeT':
            fmt = self.cstring(vals[0])
            self.pyvals[len(self.pyvals)] = (fmt, vals[1:])
            env[dst] = Ptr(('pyval', len(self.pyvals) - 1)); return
        if name == 'PyObject_Call':
            target, a = vals[0], vals[1]
            fmt, av = self.pyvals[a.region[1]]
            tname = target.region[1]
            if fmt == '(OI)':          # tracer.read_port(registers, port)
                v = z3.BitVec('port_in%d' % len(st.inputs), W)
                self.path.assume(v >= 0, v <= 255)
                st.inputs.append(v)
                st.events.append(('in', av[1]))
                env[dst] = Ptr(('pyval', 'in%d' % (len(st.inputs) - 1)))
            elif fmt == '(OIBI)':      # tracer.write_port(registers, port, value, offset)
                st.events.append(('out', av[1], av[2], av[3]))
                env[dst] = Ptr(('pyval', 'none'))
            else:
                raise HarnessError('PyObject_Call with format %r on %s' % (fmt, tname))
            return
        if name == 'PyLong_AsLong':
            tag = vals[0].region[1]
            if isinstance(tag, str) and tag.startswith('in'):
                env[dst] = st.inputs[int(tag[2:])]; return
            raise HarnessError('PyLong_AsLong of %r' % (vals[0],))
        if name == 'read_port':
            raise HarnessError('self->read_port called')
        if name in self.m.funcs:
            r = Interp.call(self, name, vals)
            if dst:
                env[dst] = r
            return
        raise HarnessError('call to ' + name)

    def cstring(self, p):
        txt = self.m.globals[p.region[1]]
        m = re.search(r'c"((?:[^"\\]|\\.)*)"', txt)
        s = re.sub(r'\\([0-9A-Fa-f]{2})', lambda k: chr(int(k.group(1), 16)), m.group(1))
        return s.rstrip('\0')
