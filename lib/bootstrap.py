"""Make z3 importable under /venv's interpreter (the one skoolkit is installed in) and put lib/ on the path.

z3-solver is a pure-Python/ctypes package; it is taken from the tooling venv's site-packages, appended at the
*end* of sys.path so nothing else is shadowed.  If /verif/.venv exists (setup_cmd builds it from the offline
wheelhouse) its site-packages are preferred."""
import os, sys, glob

HERE = os.path.dirname(os.path.abspath(__file__))
ROOT = os.path.dirname(HERE)
REPO = os.environ.get('VERIF_REPO', '/repo')
if HERE not in sys.path:
    sys.path.insert(0, HERE)
for pat in (os.path.join(ROOT, '.venv/lib/python3*/site-packages'), '/opt/veriftools/pyvenv/lib/python3*/site-packages'):
    for d in glob.glob(pat):
        if os.path.isdir(os.path.join(d, 'z3')) and d not in sys.path:
            sys.path.append(d)
# the code under test is always /repo's working tree
if REPO not in sys.path:
    sys.path.insert(0, REPO)
os.environ.setdefault('SKOOLKIT_VERIF', '1')
