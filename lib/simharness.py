"""Driving the real Simulator / CMIOSimulator closures on symbolic machine states (Engine A)."""
import os
import z3
import bootstrap  # noqa
from symx import (SymInt, SymBool, SymArray, Path, Stats, explore, bv, W, sym_int, HarnessError, ite, let)
import symtables
import z80ref

REPO = bootstrap.REPO
_TABLES = {}


def patch_tables(validate=False):
    """derive the lookup tables from source and install them in the skoolkit modules.
    -> dict(tables=[names], entries=int, mismatches=list)"""
    import skoolkit.simtables as st
    import skoolkit.simulator as sm
    import skoolkit.cmiosimulator as cm
    info = {'tables': [], 'entries': 0, 'mismatches': []}
    tabs = symtables.load_tables(os.path.join(REPO, 'skoolkit/simtables.py'))
    simtabs = symtables.load_tables(os.path.join(REPO, 'skoolkit/simulator.py'), names={'JR_OFFSETS', 'OFFSETS', 'R1', 'R2'})
    if validate:
        n1, bad1 = symtables.validate(tabs, st)
        n2, bad2 = symtables.validate(simtabs, sm)
        info['entries'] = n1 + n2
        info['mismatches'] = [repr(b) for b in bad1 + bad2]
    for k, v in tabs.items():
        if hasattr(st, k):
            setattr(st, k, v)
    for k, v in simtabs.items():
        setattr(sm, k, v)
        if hasattr(cm, k):
            setattr(cm, k, v)
    info['tables'] = sorted(tabs) + sorted(simtabs)
    _TABLES.update(tabs)
    _TABLES.update(simtabs)
    return info


# ---------------------------------------------------------------------------
# contention delay tables as closed forms (validated exhaustively against the real lists)
MACHINES = {
    '48K': dict(frame=69888, int_active=32, first=14335, line=224, c0=14335, c1=57245),
    '128K': dict(frame=70908, int_active=36, first=14361, line=228, c0=14361, c1=58035),
}


def delay_concrete(machine, t):
    m = MACHINES[machine]
    d = t - m['first']
    if d < 0 or d // m['line'] >= 192 or d % m['line'] >= 128:
        return 0
    return (6, 5, 4, 3, 2, 1, 0, 0)[(d % m['line']) & 7]


class DelayTable:
    """stands for DELAYS_48K / DELAYS_128K: a closed form when indexed symbolically"""

    def __init__(self, machine, real):
        self.machine, self.real = machine, real
        self.m = MACHINES[machine]

    def __len__(self):
        return len(self.real)

    def validate(self):
        return [t for t in range(len(self.real)) if self.real[t] != delay_concrete(self.machine, t)]

    def __getitem__(self, t):
        if isinstance(t, int):
            return self.real[t]
        if isinstance(t, SymBool):
            t = t._i()
        n = len(self.real)
        if not (t.lo >= 0 and t.hi < n):
            Path.cur.obligation('index-in-range:DELAYS_' + self.machine, z3.And(t.e >= 0, t.e < n))
        return SymInt(delay_term(self.machine, t), 0, 6)


def delay_term(machine, t):
    """z3 term (BV W) for the ULA delay at frame position t (a SymInt within the frame)"""
    m = MACHINES[machine]
    d = t - m['first']
    line, col = d._divmod_const(m['line']) if d.lo >= 0 else (None, None)
    if line is None:
        # t may precede the first contended T-state: shift into the non-negative range first
        dd = SymInt(z3.If(d.e < 0, z3.BitVecVal(0, W), d.e), 0, max(0, d.hi))
        line, col = dd._divmod_const(m['line'])
    ph = col.e & 7
    pat = z3.If(z3.ULT(ph, 6), 6 - ph, z3.BitVecVal(0, W))
    return z3.If(z3.And(d.e >= 0, line.e < 192, col.e < 128), pat, z3.BitVecVal(0, W))


def patch_delays():
    import skoolkit.cmiosimulator as cm
    out = {}
    for name, machine in (('DELAYS_48K', '48K'), ('DELAYS_128K', '128K')):
        real = getattr(cm, name)
        if isinstance(real, DelayTable):
            continue
        dt = DelayTable(machine, list(real))
        out[name] = len(dt.validate())
        setattr(cm, name, dt)
    return out


# ---------------------------------------------------------------------------
REG_RANGES = [255] * 12 + [65535, 0, 255, 255] + [255] * 8 + [65535, (1 << 32) - 1, 1, 2, 1, 65535]
REG_NAMES = ['A', 'F', 'B', 'C', 'D', 'E', 'H', 'L', 'IXh', 'IXl', 'IYh', 'IYl', 'SP', 'SP2', 'I', 'R',
             'xA', 'xF', 'xB', 'xC', 'xD', 'xE', 'xH', 'xL', 'PC', 'T', 'IFF', 'IM', 'HALT', 'MEMPTR']


def reg_vars():
    return [z3.BitVec('r_' + n, W) for n in REG_NAMES]


def invariant(regs):
    """the machine-state invariant I of DESIGN.md 2.4 over 30 BV64 terms"""
    return [z3.And(r >= 0, r <= hi) for r, hi in zip(regs, REG_RANGES)]


class Tracer:
    """port tracer proxy: records events, returns a fresh symbolic byte on reads"""

    def __init__(self, reads=True, writes=True):
        self.events = []
        self.inputs = []
        if reads:
            self.read_port = self._read_port
        if writes:
            self.write_port = self._write_port

    def reset(self):
        self.events = []
        self.inputs = []

    def _read_port(self, registers, port):
        v = sym_int('port_in%d' % len(self.inputs), 0, 255)
        self.inputs.append(v)
        self.events.append(('in', port))
        return v

    def _write_port(self, registers, port, value, offset):
        self.events.append(('out', port, value, offset))


class Machine:
    """a real Simulator (or subclass) instance whose registers and memory are symbolic"""

    def __init__(self, cls, machine='48K', tracer=None, config=None, mem128=None):
        self.cls = cls
        self.machine = machine
        self.m = MACHINES[machine]
        self.tracer = tracer
        cfg = {'frame_duration': self.m['frame'], 'int_active': self.m['int_active']}
        if config:
            cfg.update(config)
        if machine == '48K':
            self.mem = SymArray('mem', 65536)
            memory = self.mem
        else:
            memory = mem128
            self.mem = mem128
        self.sim = cls(memory, config=cfg)
        if tracer is not None:
            self.sim.set_tracer(tracer)

    def reset(self, path, pins=(), extra=()):
        """fresh symbolic pre-state on `path`.  pins: opcode bytes at PC+k (None = free)"""
        regs = reg_vars()
        path.assume(*invariant(regs))
        self.regs0 = regs
        sregs = [SymInt(r, 0, hi) for r, hi in zip(regs, REG_RANGES)]
        self.sim.registers[:] = sregs
        self.mem0 = z3.Array('mem', z3.BitVecSort(16), z3.BitVecSort(8))
        self.mem.arr = self.mem0
        self.mem.writes = []
        pc16 = z3.Extract(15, 0, regs[24])
        for k, b in enumerate(pins):
            if b is not None:
                path.assume(z3.Select(self.mem0, pc16 + k) == b)
        if self.tracer:
            self.tracer.reset()
        for c in extra:
            path.assume(c)
        return sregs

    def post_regs(self):
        return [bv(r) for r in self.sim.registers]


def run_slot(machine, slot, on_result, stats=None, extra=None):
    """explore one opcode slot of machine.sim from an arbitrary state satisfying the invariant.
    on_result(path, machine, outcome) is called per path; outcome is None or ('exception', e)"""
    pins = z80ref.slot_bytes(slot)
    sim = machine.sim

    def fn(path):
        machine.reset(path, pins, extra(machine) if extra else ())
        sim.opcodes[pins[0]]()
        return None

    return explore(fn, stats=stats, on_path=lambda p, out: on_result(p, machine, out))


def frame_mod(t_term, machine, lo=0, hi=(1 << 32) + 64):
    """term for t % frame_duration using the engine's quotient/remainder encoding"""
    return (SymInt(t_term, lo, hi) % MACHINES[machine]['frame']).e


class RefEnv(z80ref.Env):
    def __init__(self, machine, tracer=False, port_value=None):
        m = MACHINES[machine]
        super().__init__(m['frame'], m['int_active'], tracer, port_value)
        self.machine = machine

    def mod_frame(self, t):
        return frame_mod(t, self.machine)
