"""Symbolic numerals: letting symbolic integers travel through text.

`SymInt.__format__`/`__str__` return a real `str` token made of digit characters that are valid for the radix
requested; the token -> (value term, radix, ...) map lives on the current Path.  All ordinary string code (templates,
split, regexes, case conversion) then runs natively on the token.  Where the code under test turns text back into a
number, the harness shadows `int` (and `eval`, `chr`, `ord`) *in that module's namespace* with the versions below.

Abstracted (trusted, not checked): the digit rendering of Python's own format()/int().  Everything skoolkit decides
stays real: prefixes ($, %, "), sign, 256 - value, +128 inversion, width selection, quoting/escaping, splitting.
"""
import builtins
import re
import z3
from symx import SymInt, SymBool, Path, HarnessError, set_format_hook, W, bv

_real_int = builtins.int
_real_chr = builtins.chr
_real_ord = builtins.ord
_real_eval = builtins.eval
_real_isinstance = builtins.isinstance

PUA = 0xE000          # private-use code points stand for symbolic characters


def toks():
    p = Path.cur
    return p.data.setdefault('numerals', {})


def new_token(val, radix, upper=True):
    t = toks()
    k = len(t)
    if radix == 16:
        tok = 'F%07d' % (8999999 - k)          # 8 hex digits, never all-decimal
        if not upper:
            tok = tok.lower()
    elif radix == 2:
        tok = '1' + format(k + 1, '023b')       # 24 binary digits
    else:
        tok = '9%08d' % k                       # 9 decimal digits (>= 900000000: no real constant looks like this)
    t[tok.upper()] = (val, radix)
    return tok


def fmt_hook(v, spec=''):
    """__format__ of a SymInt"""
    m = re.fullmatch(r'(?:(.)?([<>=^]))?([-+ ]?)(#?)(0?)(\d*)([bdxXn]?)', spec)
    if not m:
        raise HarnessError('format spec %r on a symbolic int' % spec)
    if m.group(4):
        raise HarnessError('format spec %r (#) on a symbolic int' % spec)
    ty = m.group(7)
    radix = {'x': 16, 'X': 16, 'b': 2, 'd': 10, 'n': 10, '': 10}[ty]
    if v.lo >= 0:
        neg = False
    elif v.hi < 0:
        neg = True
    else:
        neg = Path.cur.branch(v.e < 0)
    sign = '-' if neg else ({'+': '+', ' ': ' '}.get(m.group(3), ''))
    mag = -v if neg else v
    return sign + new_token(mag, radix, upper=(ty != 'x'))


def lookup(s):
    """token text (any case) -> (value, radix) or None"""
    return toks().get(s.upper())


def embedded(s):
    u = s.upper()
    return any(t in u for t in toks())


class _IntMeta(type):
    def __instancecheck__(cls, inst):
        return _real_isinstance(inst, (_real_int, SymInt))


class sym_int_type(metaclass=_IntMeta):
    """stand-in for `int` inside a module under test"""

    def __new__(cls, x=0, base=None):
        if _real_isinstance(x, SymInt):
            return x
        if _real_isinstance(x, SymBool):
            return x._i()
        if _real_isinstance(x, str):
            s = x.strip()
            neg = False
            body = s
            if body[:1] in ('+', '-'):
                neg = body[0] == '-'
                body = body[1:]
            hit = lookup(body)
            if hit is not None:
                val, radix = hit
                b = 10 if base is None else base
                if b == radix:
                    return -val if neg else val
                if b < radix:
                    # e.g. int('F8999999') in base 10: Python raises ValueError on the hex digit; a decimal-looking
                    # numeral parsed in base 2 likewise
                    raise ValueError('invalid literal for int() with base %d: %r' % (b, x))
                # numeral rendered in a smaller radix than it is parsed in: Python would return a different number
                p = Path.cur
                g = p.fresh('misparsed')
                p.data.setdefault('radix_confusion', []).append((x, radix, b))
                return SymInt(g, 0, 1 << 40)
            if embedded(body):
                raise ValueError('invalid literal for int(): %r' % x)
            return _real_int(x) if base is None else _real_int(x, base)
        return _real_int(x) if base is None else _real_int(x, base)


def sym_eval(src, *a):
    """eval() of an arithmetic expression that may contain decimal numeral tokens"""
    env = {}

    def rep(m):
        hit = lookup(m.group())
        if hit is None:
            return m.group()
        val, radix = hit
        if radix != 10:
            raise HarnessError('non-decimal numeral inside eval(): ' + src)
        name = '_t%d' % len(env)
        env[name] = val
        return name
    s2 = re.sub(r'[0-9A-Fa-f]{8,}', rep, src)
    return _real_eval(s2, {'__builtins__': {}}, env)


def sym_chr(v):
    """chr() of a symbolic code: the characters that matter to quoting rules are realised, the rest become
    private-use characters registered as symbolic"""
    if not _real_isinstance(v, (SymInt, SymBool)):
        return _real_chr(v)
    if _real_isinstance(v, SymBool):
        v = v._i()
    p = Path.cur
    for special in (34, 92, 94, 96, 32, 44, 59, 58, 39):     # " \ ^ ` space , ; : '
        if v.lo <= special <= v.hi and p.branch(v.e == special):
            return _real_chr(special)
    chars = p.data.setdefault('symchars', {})
    c = _real_chr(PUA + len(chars))
    chars[c] = v
    return c


def sym_ord(c):
    if _real_isinstance(c, str) and len(c) == 1:
        hit = Path.cur.data.get('symchars', {}).get(c)
        if hit is not None:
            return hit
    return _real_ord(c)


def install(*modules, with_eval=False, with_chr=False):
    set_format_hook(fmt_hook)
    for m in modules:
        m.int = sym_int_type
        if with_eval:
            m.eval = sym_eval
        if with_chr:
            m.chr = sym_chr
            m.ord = sym_ord


def token_values(text):
    """all numeral tokens in `text`, in order -> [(token, value SymInt, radix)]"""
    out = []
    for m in re.finditer(r'[0-9A-Fa-f]{8,}', text):
        hit = lookup(m.group())
        if hit:
            out.append((m.group(), hit[0], hit[1]))
    return out


def skeleton(text):
    """text with every numeral token replaced by '#' (for comparing the non-numeric part of two renderings)"""
    def rep(m):
        return '#' if lookup(m.group()) else m.group()
    return re.sub(r'[0-9A-Fa-f]{8,}', rep, text)
