#!/venv/bin/python
"""C11: tape files round-trip and their pulse trains encode exactly the block bytes.

edges    tape.get_edges on one or two blocks whose pulse widths, bit-pulse widths, tail, pause and first edge are symbolic
         (0..65535 each), for every used-bits count 1..8, polarity setting and block kind (tone, pulse sequence, data with
         and without zero-length bit pulses): the edge list is non-decreasing, the data-block range starts at the edge where
         the data begins (at the time the preceding pulses and pauses add up to, at the level the block's polarity demands)
         and ends at its last edge, and measuring the distances between the edges in that range gives back exactly the
         block's bits (z3, per path).
files    write_tap -> parse_tap and write_pzx -> parse_pzx return the bytes written (symbolic data bytes); the same bytes
         as TAP, as a TZX standard-speed block (0x10) and as PZX give the same edge list.
"""
import os
import sys

sys.path.insert(0, os.path.join(os.path.dirname(os.path.abspath(__file__)), '..', 'lib'))
import bootstrap  # noqa
import z3
import harness
import bytesshim
from symx import Stats, HarnessError, Inconclusive, SymInt, SymBool, bv, W, explore, sym_int, Path, rng

PROP = 'C11'
BYTE_VALUES = (0x00, 0xFF, 0xA5, 0x80, 0x01, 0x5A)


def init_worker():
    import symx
    # get_edges memoises per-byte pulse lists in a dict keyed by the (zero, one) pulse widths: with symbolic widths the key is
    # hashed by identity (a cache miss only recomputes the list)
    symx.HASH_BY_IDENTITY = True
    import skoolkit.tape as tape
    bytesshim.install(tape, with_zlib=False)
    import shims
    shims.install_isinstance(tape)
    import numerals
    numerals.install()          # _get_pzx_block renders pulse counts and durations into its info lines


def new_res():
    return {'obligations': 0, 'discharged': 0, 'violations': [], 'inconclusive': [], 'samples': [], 'nontrivial': 0}


def finish(res, st):
    res.update(paths=st.paths, queries=st.queries, solver_s=st.solver_s, realisations=st.realisations)
    return res


def lt(a, b):
    """a < b as a z3 Bool in difference form: z3 cancels the common summands of (a - b) syntactically, whereas comparing two
    long 64-bit sums directly is hard for a bit-vector solver (no overflow: the engine's interval guard keeps |values| < 2^62)"""
    return z3.simplify(bv(a) - bv(b)) < 0


def ne(a, b):
    return z3.simplify(bv(a) - bv(b)) != 0


def data_byte(name):
    v = sym_int(name, 0, 255)
    Path.cur.assume(z3.Or(*[v.e == b for b in BYTE_VALUES]))
    return v


def check_edges(item):
    """('edges', shape, used_bits, polarity, block_polarity, zero_mode, nbytes[, (pulses per 0 bit, pulses per 1 bit)])"""
    _, shape, used_bits, polarity, bpol, zero_mode, nbytes = item[:7]
    nz, no = item[7] if len(item) > 7 else (2, 2)
    st = Stats()
    res = new_res()
    import skoolkit.tape as tape
    name = 'get_edges %s used_bits=%d polarity=%d block polarity=%r %s %d byte(s)' % (shape, used_bits, polarity, bpol, 'zero-length pulses allowed' if zero_mode else 'non-zero pulses', nbytes)
    if (nz, no) != (2, 2):
        name += ' %d/%d pulses per 0/1 bit' % (nz, no)

    def mk_block(k, with_data, pulses_spec):
        lo = 0 if zero_mode else 1
        pulses = tuple((cnt, sym_int('p%d_%d' % (k, j), 0, 65535)) for j, cnt in enumerate(pulses_spec))
        if with_data:
            zero = tuple(sym_int('z%d_%d' % (k, i), lo, 65535) for i in range(nz))
            one = tuple(sym_int('o%d_%d' % (k, i), lo, 65535) for i in range(no))
            data = [data_byte('d%d_%d' % (k, j)) for j in range(nbytes)]
            tail = sym_int('tail%d' % k, 0, 65535)
            t = tape.TapeBlockTimings(pulses, zero, one, sym_int('pause%d' % k, 0, 4000000), used_bits, False, tail, bpol)
        else:
            data = ()
            t = tape.TapeBlockTimings(pulses, None, None, sym_int('pause%d' % k, 0, 4000000), 8, False, 0, bpol)
        return tape.TapeBlock(k + 1, data, t)

    def fn(path):
        first = sym_int('first_edge', 0, 100000)
        if shape == 'data':
            blocks = [mk_block(0, True, (2, 1, 1))]
        elif shape == 'tone+data':
            blocks = [mk_block(0, False, (3,)), mk_block(1, True, (1,))]
        elif shape == 'data+data':
            blocks = [mk_block(0, True, (1,)), mk_block(1, True, ())]
        elif shape == 'pulses':
            blocks = [mk_block(0, False, (2, 1)), mk_block(1, False, (1, 2))]
        else:
            raise HarnessError(shape)
        for b in blocks:
            b.keys = None          # as tapinfo / tap2sna do before calling get_edges
        edges, dblocks = tape.get_edges(blocks, first, polarity)
        return first, blocks, edges, dblocks

    def on(p, out):
        res['obligations'] += 1
        if isinstance(out, tuple) and out[0] == 'exception':
            res['violations'].append(dict(key='%s:exception' % name, text='%s raises %r' % (name, out[1]), case=dict(kind='edges', item=list(item))))
            return
        first, blocks, edges, dblocks = out
        diffs, names = [], []
        for a, b in zip(edges, edges[1:]):
            diffs.append(lt(b, a)); names.append('edges decrease')
        structural = []
        # expected data blocks: one per block with data
        with_data = [b for b in blocks if b.data]
        real_dblocks = [d for d in dblocks if d.data]
        if len(real_dblocks) != len(with_data):
            structural.append('%d data blocks reported for %d blocks with data' % (len(real_dblocks), len(with_data)))
        # time at which each block's data starts: first edge + everything before it
        t = first
        for bi, blk in enumerate(blocks):
            tm = blk.timings
            # (sums are built in the order the signal is laid out, so that equal quantities are syntactically equal terms:
            #  a bit-vector solver is slow at re-associating 64-bit sums)
            for cnt, dur in tm.pulses:
                for _ in range(cnt):
                    t = t + dur
            if blk.data:
                blk_bytes = [b if isinstance(b, int) else p.realise(b.e, 'data byte') for b in blk.data]
                db = real_dblocks[with_data.index(blk)] if len(real_dblocks) == len(with_data) else None
                bare = False
                if db is not None:
                    s_, e_ = db.start, db.end
                    if not (0 <= s_ <= e_ < len(edges)):
                        structural.append('data block range %r..%r outside the edge list (%d edges)' % (s_, e_, len(edges)))
                    elif not zero_mode:
                        # An edge list records level changes only.  When a block's data follows a pause directly (no pulses of
                        # its own), there is no edge at the end of the pause unless a polarity adjustment puts one there: the
                        # range then starts at the previous block's last edge and the first pulse measured is pause + width.
                        bare = bi > 0 and not tm.pulses
                        if not bare:
                            diffs.append(ne(edges[s_], t)); names.append('data of block %d does not start at the time its pulses end' % (bi + 1))
                        else:
                            diffs.append(lt(t, edges[s_])); names.append('data of block %d starts after the time its data begins' % (bi + 1))
                        if tm.polarity is not None and (s_ % 2) != (tm.polarity ^ (polarity % 2)):
                            structural.append('level at the start of the data of block %d is not the one its polarity demands' % (bi + 1))
                        # decode: distances between consecutive edges
                        k = s_
                        nb = len(blk.data)
                        for j, byte in enumerate(blk_bytes):
                            bits = 8 if j < nb - 1 else used_bits
                            for bit in range(bits):
                                isone = (byte & (0x80 >> bit)) != 0
                                for pi in range(no if isone else nz):
                                    if k + 1 >= len(edges):
                                        structural.append('edge list ends inside the data of block %d' % (bi + 1))
                                        break
                                    dist = edges[k + 1] - edges[k]
                                    want = (tm.one if isone else tm.zero)[pi]
                                    c = isone if isinstance(isone, bool) else None
                                    if bare and k == s_:
                                        # first pulse after the pause: its edge is at (time the data begins) + width
                                        diffs.append(ne(edges[k + 1], t + want))
                                    else:
                                        diffs.append(ne(dist, want))
                                    names.append('bit %d of byte %d of block %d is not encoded by its pulse widths' % (bit, j, bi + 1))
                                    k += 1
                        tailz = tm.tail
                        last_is_final = blk is blocks[-1]
                        # the range ends at the last data edge, or at the tail edge when there is one (the tail edge of the last
                        # block is dropped when nothing follows it)
                        exp_end_no_tail = k
                        diffs.append(z3.And(bv(tailz) == 0, z3.BoolVal(e_ != exp_end_no_tail))); names.append('data block end index (no tail)')
                        if last_is_final:
                            diffs.append(z3.And(bv(tailz) != 0, z3.BoolVal(e_ not in (k, k + 1)))); names.append('data block end index (tail, last block)')
                        else:
                            diffs.append(z3.And(bv(tailz) != 0, z3.BoolVal(e_ != k + 1))); names.append('data block end index (tail)')
                for d in (tm.zero + tm.one):
                    pass
                nb = len(blk.data)
                nbits = 8 * (nb - 1) + used_bits
                # total time of the data
                for j, byte in enumerate(blk_bytes):
                    bits = 8 if j < nb - 1 else used_bits
                    for bit in range(bits):
                        w = tm.one if (byte & (0x80 >> bit)) else tm.zero
                        for x in w:
                            t = t + x
                t = t + tm.tail
            if bi + 1 < len(blocks):
                t = t + tm.pause
        # the last edge never lies beyond the end of the signal
        diffs.append(lt(t, edges[-1])); names.append('last edge after the end of the signal')
        if structural:
            r, mod = p.check(model=True); which = structural
        else:
            r, mod, which = p.check_any(diffs, names)
        if r == 'unknown':
            res['inconclusive'].append(name); return
        if r == 'sat' or p.failed_obligations():
            if mod is None:
                r, mod = p.check(model=True); which = ['side obligation']
            vals = {str(d): mod[d].as_long() for d in mod.decls() if hasattr(mod[d], 'as_long') and not str(d).startswith(('q!', 'r!', 'let!', 'ti!'))}
            res['violations'].append(dict(key='%s:%s' % (name, which[0][:50]), text='%s: %s with %r' % (name, '; '.join(dict.fromkeys(which))[:200], vals), case=dict(kind='edges', item=list(item), vals=vals)))
            return
        res['discharged'] += 1
        res['nontrivial'] += 1
        if not res['samples']:
            res['samples'].append({'item': name, 'edges': len(edges), 'data_blocks': [(d.start, d.end) for d in dblocks], 'verdict': 'unsat'})

    try:
        explore(fn, stats=st, on_path=on, max_paths=20000)
    except Inconclusive as e:
        res['inconclusive'].append('%s: %s' % (name, e))
    return finish(res, st)


# ---------------------------------------------------------------------------
class FakeFile:
    def __init__(self):
        self.data = bytesshim.SymBytes()

    def write(self, b):
        self.data.extend(b)

    def __enter__(self):
        return self

    def __exit__(self, *a):
        return False


PULS_FORMS = ('short', 'count', 'long', 'count+long')


def puls_words(form, c, d):
    """PZX PULS encoding (http://zxds.raxoft.cz/docs/pzx.txt): [0x8000|count] [0x8000|duration high 15 bits] duration low word"""
    if form == 'short':          # count 1, duration < 0x8000
        return [d]
    if form == 'count':          # 0x8000|count (count >= 1... the spec also allows 0), duration < 0x8000
        return [0x8000 + c, d]
    if form == 'long':           # count 1, duration < 65536 spelled with the extension word 0x8000 (high bits 0)
        return [0x8000, d]
    return [0x8000 + c, 0x8000 + d // 65536, d % 65536]


def check_puls(item):
    """('puls', forms): a PULS block (and a DATA block after it) whose fields are symbolic, through _get_pzx_block"""
    _, forms, databits = item
    st = Stats()
    res = new_res()
    import skoolkit.tape as tape
    name = 'PZX PULS block with entries %s%s' % ('+'.join(forms), ', then DATA of %d bits' % databits if databits else '')

    def fn(path):
        want = []
        words = []
        for k, form in enumerate(forms):
            c = sym_int('c%d' % k, 1, 0x7FFF) if 'count' in form else 1
            if form in ('short', 'count'):
                d = sym_int('d%d' % k, 0, 0x7FFF)
            elif form == 'long':
                d = sym_int('d%d' % k, 0, 0xFFFF)
            else:
                d = sym_int('d%d' % k, 0, 0x7FFFFFFF)
            want.append((c, d))
            words += puls_words(form, c, d)
        body = []
        for w in words:
            body += [w % 256, w // 256]
        data = [ord(ch) for ch in 'PULS'] + [len(body) % 256, len(body) // 256, 0, 0] + body
        blocks = []
        end, block, rom = tape._get_pzx_block(data, 0, 1, False)
        blocks.append(block)
        dwant = None
        if databits:
            tail = sym_int('tail', 0, 65535)
            lvl = sym_int('lvl', 0, 1)
            s0 = [sym_int('s0_%d' % i, 1, 65535) for i in range(1)]
            s1 = [sym_int('s1_%d' % i, 1, 65535) for i in range(2)]
            nb = (databits + 7) // 8
            payload = [data_byte('b%d' % i) for i in range(nb)]
            cnt = databits + lvl * 0x80000000
            dbody = [cnt % 256, cnt // 256 % 256, cnt // 65536 % 256, cnt // 16777216, tail % 256, tail // 256, len(s0), len(s1)]
            for w in s0 + s1:
                dbody += [w % 256, w // 256]
            dbody += payload
            dstart = len(data)
            data += [ord(ch) for ch in 'DATA'] + [len(dbody) % 256, len(dbody) // 256, 0, 0] + dbody
            end2, dblock, _ = tape._get_pzx_block(data, dstart, 2, rom)
            blocks.append(dblock)
            dwant = (lvl, tail, s0, s1, payload, (databits % 8) or 8, len(data), end2)
        return want, len(data) if not databits else dstart, end, block, dwant, blocks

    def on(p, out):
        res['obligations'] += 1
        if isinstance(out, tuple) and out[0] == 'exception':
            r, mod = p.check(model=True)
            vals = {str(d): mod[d].as_long() for d in mod.decls() if hasattr(mod[d], 'as_long') and not str(d).startswith(('q!', 'r!', 'let!', 'ti!'))} if mod is not None else {}
            res['violations'].append(dict(key='%s:exception' % name, text='%s raises %r with %r' % (name, out[1], vals), case=dict(kind='puls', item=list(item), vals=vals)))
            return
        want, plen, end, block, dwant, blocks = out
        diffs, names, structural = [], [], []
        if end != plen:
            structural.append('PULS block of %d bytes ends at %r' % (plen, end))
        got = list(block.timings.pulses)
        pol = block.timings.polarity
        # the first pulse is dropped (and the level inverted) when its count is odd and its duration 0: decide that case split here
        c0, d0 = want[0]
        odd_zero = p.branch(z3.And(bv(c0) % 2 == 1, bv(d0) == 0))
        exp = want[1:] if odd_zero else want
        if pol != (1 if odd_zero else 0):
            structural.append('initial level %r' % (pol,))
        if len(got) != len(exp):
            structural.append('%d pulse entries parsed, %d expected' % (len(got), len(exp)))
        else:
            for k, ((gc, gd), (wc, wd)) in enumerate(zip(got, exp)):
                diffs.append(bv(gc) != bv(wc)); names.append('count of entry %d' % k)
                diffs.append(bv(gd) != bv(wd)); names.append('duration of entry %d' % k)
        if dwant:
            lvl, tail, s0, s1, payload, ub, dlen, end2 = dwant
            tm = blocks[1].timings
            if end2 != dlen:
                structural.append('DATA block ends at %r, not %d' % (end2, dlen))
            if tm is None or blocks[1].data is None:
                structural.append('DATA block has no timings/data')
            else:
                if len(tm.zero) != len(s0) or len(tm.one) != len(s1) or len(blocks[1].data) != len(payload):
                    structural.append('DATA block pulse sequence or payload lengths differ')
                else:
                    for x, y in zip(list(tm.zero) + list(tm.one) + list(blocks[1].data), s0 + s1 + payload):
                        diffs.append(bv(x) != bv(y)); names.append('DATA pulse width / payload byte')
                diffs.append(bv(tm.tail) != bv(tail)); names.append('DATA tail')
                diffs.append(bv(tm.polarity) != bv(lvl)); names.append('DATA initial level')
                if tm.used_bits != ub:
                    structural.append('DATA used bits %r, expected %d' % (tm.used_bits, ub))
        if structural:
            r, mod = p.check(model=True); which = structural
        else:
            r, mod, which = p.check_any(diffs, names)
        if r == 'unknown':
            res['inconclusive'].append(name); return
        if r == 'sat':
            vals = {str(d): mod[d].as_long() for d in mod.decls() if hasattr(mod[d], 'as_long') and not str(d).startswith(('q!', 'r!', 'let!', 'ti!'))}
            res['violations'].append(dict(key='%s:%s' % (name, which[0][:50]), text='%s: %s with %r' % (name, '; '.join(dict.fromkeys(which))[:200], vals), case=dict(kind='puls', item=list(item), vals=vals)))
            return
        res['discharged'] += 1
        res['nontrivial'] += 1
        if not res['samples']:
            res['samples'].append({'item': name, 'entries': len(want), 'verdict': 'unsat'})

    try:
        explore(fn, stats=st, on_path=on, max_paths=5000)
    except Inconclusive as e:
        res['inconclusive'].append('%s: %s' % (name, e))
    return finish(res, st)


def replay_puls(case):
    import skoolkit.tape as tape
    _, forms, databits = case['item']
    v = case.get('vals') or {}
    want, words = [], []
    for k, form in enumerate(forms):
        c = v.get('c%d' % k, 1) if 'count' in form else 1
        d = v.get('d%d' % k, 0)
        want.append((c, d))
        words += puls_words(form, c, d)
    body = []
    for w in words:
        body += [w % 256, w // 256]
    data = [ord(ch) for ch in 'PULS'] + [len(body) % 256, len(body) // 256, 0, 0] + body
    try:
        end, block, rom = tape._get_pzx_block(data, 0, 1, False)
    except Exception as e:
        return True, 'raises %r' % e
    exp = want[1:] if (want[0][0] % 2 and want[0][1] == 0) else want
    bad = []
    if list(block.timings.pulses) != exp:
        bad.append('PULS words %r parsed as %r, expected %r' % (words, list(block.timings.pulses), exp))
    if end != len(data):
        bad.append('block ends at %d, not %d' % (end, len(data)))
    if databits and not bad:
        lvl, tail = v.get('lvl', 0), v.get('tail', 0)
        s0 = [v.get('s0_0', 1)]; s1 = [v.get('s1_0', 1), v.get('s1_1', 1)]
        nb = (databits + 7) // 8
        payload = [v.get('b%d' % i, 0) for i in range(nb)]
        cnt = databits + lvl * 0x80000000
        dbody = [cnt % 256, cnt // 256 % 256, cnt // 65536 % 256, cnt // 16777216, tail % 256, tail // 256, 1, 2]
        for w in s0 + s1:
            dbody += [w % 256, w // 256]
        dbody += payload
        dstart = len(data)
        data += [ord(ch) for ch in 'DATA'] + [len(dbody) % 256, len(dbody) // 256, 0, 0] + dbody
        try:
            end2, db, _ = tape._get_pzx_block(data, dstart, 2, rom)
        except Exception as e:
            return True, 'DATA block raises %r' % e
        tm = db.timings
        got = (list(tm.zero), list(tm.one), list(db.data), tm.tail, tm.polarity, tm.used_bits, end2)
        exp = (s0, s1, payload, tail, lvl, (databits % 8) or 8, len(data))
        if got != exp:
            bad.append('DATA block parsed as %r, expected %r' % (got, exp))
    return bool(bad), '; '.join(bad) or 'blocks parse as specified'


def _words(*ws):
    out = []
    for w in ws:
        out += [w % 256, w // 256]
    return out


def _pzx_block(tag, body):
    n = len(body)
    return [ord(ch) for ch in tag] + [n % 256, n // 256 % 256, n // 65536 % 256, n // 16777216] + body


def check_tzx(item):
    """('tzx', block id): a TZX block with symbolic fields, parsed by _get_tzx_block, and the PZX blocks (PULS, DATA, PAUS) that
    describe the same signal, parsed by _get_pzx_block, followed by a closing pulse block: get_edges gives the same edge list"""
    _, bid = item
    st = Stats()
    res = new_res()
    import skoolkit.tape as tape
    name = 'TZX block 0x%02X against the equivalent PZX blocks' % bid
    state = {}

    def fn(path):
        f = {}
        S = lambda n, lo, hi: f.setdefault(n, sym_int(n, lo, hi))
        payload = [0xA5, data_byte('b1')]
        pz = []
        lp = lambda c, d: _words(0x8000 + c, 0x8000, d)        # PULS entry in its count + long-duration form: any 16-bit duration
        if bid == 0x11:
            pilot, s1_, s2_, zero, one = S('pilot', 1, 65535), S('sync1', 1, 65535), S('sync2', 1, 65535), S('zero', 1, 65535), S('one', 1, 65535)
            plen, ub, pause = S('pilot_len', 1, 2), S('used_bits', 1, 8), 0          # no pause: TZX and PZX render a pause differently (edge at its end / level set at its start)
            body = [0x11] + _words(pilot, s1_, s2_, zero, one, plen) + [ub] + _words(pause) + [len(payload), 0, 0] + payload
            pz.append(_pzx_block('PULS', lp(plen, pilot) + lp(1, s1_) + lp(1, s2_)))
        elif bid == 0x14:
            zero, one = S('zero', 1, 65535), S('one', 1, 65535)
            ub, pause = S('used_bits', 1, 8), 0
            body = [0x14] + _words(zero, one) + [ub] + _words(pause) + [len(payload), 0, 0] + payload
        elif bid == 0x12:
            plen, n = S('pulse', 1, 65535), S('count', 1, 3)
            body = [0x12] + _words(plen, n)
            pz.append(_pzx_block('PULS', lp(n, plen)))
        else:
            p1, p2, p3 = S('p1', 1, 0x7FFF), S('p2', 1, 0x7FFF), S('p3', 1, 0x7FFF)
            body = [0x13, 3] + _words(p1, p2, p3)
            pz.append(_pzx_block('PULS', _words(p1, p2, p3)))
        if bid in (0x11, 0x14):
            bits = 8 * (len(payload) - 1) + ub
            # a PZX DATA block states its initial level: the level the preceding pulses leave the signal at (TZX has no such field)
            level = (plen + 2) % 2 if bid == 0x11 else 0
            pz.append(_pzx_block('DATA', [bits % 256, bits // 256, 0, level * 128] + _words(0) + [2, 2] + _words(zero, zero, one, one) + payload))
        closing = _pzx_block('PULS', _words(1000, 1000))
        # TZX side
        end, tblock = tape._get_tzx_block(body, 0, 1, True, True)
        cend, cblock, _r = tape._get_pzx_block(closing, 0, 9, False)
        tz_blocks = [tblock, cblock]
        # PZX side
        pz_blocks = []
        for k, raw in enumerate(pz):
            e_, b_, _r = tape._get_pzx_block(raw, 0, k + 1, False)
            pz_blocks.append(b_)
        _e, cblock2, _r = tape._get_pzx_block(closing, 0, 9, False)
        pz_blocks.append(cblock2)
        outs = []
        for blocks in (tz_blocks, pz_blocks):
            blocks = [b for b in blocks if b.timings]
            for b in blocks:
                b.keys = None
            outs.append(tape.get_edges(blocks, 0, 0))
        state['fields'] = f
        return end, len(body), outs

    def on(p, out):
        res['obligations'] += 1
        def vals(mod):
            return {str(d): mod[d].as_long() for d in mod.decls() if hasattr(mod[d], 'as_long') and not str(d).startswith(('q!', 'r!', 'let!', 'ti!'))} if mod is not None else {}
        if isinstance(out, tuple) and out[0] == 'exception':
            r, mod = p.check(model=True)
            res['violations'].append(dict(key='%s:exception' % name, text='%s raises %r with %r' % (name, out[1], vals(mod)), case=dict(kind='tzx', bid=bid, vals=vals(mod))))
            return
        end, blen, ((te, tdb), (pe, pdb)) = out
        structural, diffs, names = [], [], []
        if end != blen:
            structural.append('TZX block of %d bytes ends at %r' % (blen, end))
        if len(te) != len(pe):
            structural.append('%d edges from the TZX block, %d from the PZX blocks' % (len(te), len(pe)))
        else:
            for k, (a, b) in enumerate(zip(te, pe)):
                diffs.append(ne(a, b)); names.append('edge %d' % k)
        td = [(d.start, d.end) for d in tdb if d.data]
        pd = [(d.start, d.end) for d in pdb if d.data]
        if td != pd:
            structural.append('data block ranges %r (TZX) and %r (PZX)' % (td, pd))
        if structural:
            r, mod = p.check(model=True); which = structural
        else:
            r, mod, which = p.check_any(diffs, names)
        if r == 'unknown':
            res['inconclusive'].append(name); return
        if r == 'sat':
            res['violations'].append(dict(key='%s:%s' % (name, which[0][:40]), text='%s: %s with %r' % (name, '; '.join(which[:3]), vals(mod)), case=dict(kind='tzx', bid=bid, vals=vals(mod))))
            return
        res['discharged'] += 1
        res['nontrivial'] += 1
        if not res['samples']:
            res['samples'].append({'item': name, 'edges': len(te), 'verdict': 'unsat'})

    try:
        explore(fn, stats=st, on_path=on, max_paths=5000)
    except Inconclusive as e:
        res['inconclusive'].append('%s: %s' % (name, e))
    return finish(res, st)


def check_tzx15(item):
    """('tzx15', sample bytes, used bits): a TZX direct recording block with symbolic T-states-per-sample and pause: every run of equal
    sample bits is one pulse of (run length x T-states per sample), an initial high level is a zero-length first pulse, and the
    pause is the stated number of milliseconds"""
    _, samples, ub = item
    st = Stats()
    res = new_res()
    import skoolkit.tape as tape
    name = 'TZX direct recording block, samples %s, %d bit(s) used in the last byte' % (' '.join('%02X' % b for b in samples), ub)
    state = {}

    def fn(path):
        tps = sym_int('tps', 1, 1000)
        pause = sym_int('pause_ms', 0, 10000)
        n = len(samples)
        body = [0x15] + _words(tps, pause) + [ub, n % 256, n // 256, 0] + list(samples)
        end, blk = tape._get_tzx_block(body, 0, 1, True, True)
        state.update(tps=tps, pause=pause)
        return end, len(body), blk.timings

    def on(p, out):
        res['obligations'] += 1
        case = dict(kind='tzx15', samples=list(samples), ub=ub)
        if isinstance(out, tuple) and out[0] == 'exception':
            res['violations'].append(dict(key='%s:exception' % name, text='%s raises %r' % (name, out[1]), case=case))
            return
        end, blen, tm = out
        bits = []
        for j, b in enumerate(samples):
            nb = 8 if j < len(samples) - 1 else ub
            bits += [(b >> (7 - k)) & 1 for k in range(nb)]
        runs = []
        for b in bits:
            if runs and runs[-1][0] == b:
                runs[-1][1] += 1
            else:
                runs.append([b, 1])
        want = ([0] if bits[0] else []) + [r[1] for r in runs]           # in units of tps
        structural, diffs, names = [], [], []
        if end != blen:
            structural.append('block of %d bytes ends at %r' % (blen, end))
        got = list(tm.pulses)
        if len(got) != len(want) or any(c != 1 for c, d in got):
            structural.append('%d pulses (%r...), expected %d' % (len(got), got[:3], len(want)))
        else:
            for k, ((c, d), w) in enumerate(zip(got, want)):
                diffs.append(bv(d) != state['tps'].e * w); names.append('pulse %d is not %d sample(s) long' % (k, w))
        diffs.append(bv(tm.pause) != state['pause'].e * 3500); names.append('pause is not the stated number of milliseconds')
        if structural:
            r, mod = p.check(model=True); which = structural
        else:
            r, mod, which = p.check_any(diffs, names)
        if r == 'unknown':
            res['inconclusive'].append(name); return
        if r == 'sat':
            case.update(tps=mod.eval(state['tps'].e, model_completion=True).as_long(), pause=mod.eval(state['pause'].e, model_completion=True).as_long())
            res['violations'].append(dict(key='%s:%s' % (name, which[0][:40]), text='%s: %s (tps=%d, pause=%d ms)' % (name, '; '.join(which[:3]), case['tps'], case['pause']), case=case))
            return
        res['discharged'] += 1
        res['nontrivial'] += 1

    try:
        explore(fn, stats=st, on_path=on, max_paths=200)
    except Inconclusive as e:
        res['inconclusive'].append('%s: %s' % (name, e))
    return finish(res, st)


def replay_tzx15(case):
    import skoolkit.tape as tape
    samples, ub, tps, pause = case['samples'], case['ub'], case.get('tps', 79), case.get('pause', 100)
    body = [0x15] + _words(tps, pause) + [ub, len(samples) % 256, len(samples) // 256, 0] + list(samples)
    try:
        end, blk = tape._get_tzx_block(body, 0, 1, True, True)
    except Exception as e:
        return True, 'raises %r' % e
    bits = []
    for j, b in enumerate(samples):
        nb = 8 if j < len(samples) - 1 else ub
        bits += [(b >> (7 - k)) & 1 for k in range(nb)]
    want = [(1, 0)] if bits[0] else []
    run = 0
    for k, b in enumerate(bits):
        run += 1
        if k + 1 == len(bits) or bits[k + 1] != b:
            want.append((1, run * tps)); run = 0
    bad = []
    if list(blk.timings.pulses) != want:
        bad.append('pulses %r, expected %r' % (list(blk.timings.pulses), want))
    if blk.timings.pause != pause * 3500:
        bad.append('pause %r T-states, expected %d' % (blk.timings.pause, pause * 3500))
    return bool(bad), '; '.join(bad) or 'block parsed as specified'


def replay_tzx(case):
    import skoolkit.tape as tape
    bid, v = case['bid'], case.get('vals') or {}
    g = lambda n, d=1: v.get(n, d)
    payload = [0xA5, g('b1', 0)]
    pz = []
    lp = lambda c, d: _words(0x8000 + c, 0x8000, d)
    if bid == 0x11:
        body = [0x11] + _words(g('pilot'), g('sync1'), g('sync2'), g('zero'), g('one'), g('pilot_len')) + [g('used_bits', 8)] + _words(g('pause_ms', 0)) + [2, 0, 0] + payload
        pz.append(_pzx_block('PULS', lp(g('pilot_len'), g('pilot')) + lp(1, g('sync1')) + lp(1, g('sync2'))))
    elif bid == 0x14:
        body = [0x14] + _words(g('zero'), g('one')) + [g('used_bits', 8)] + _words(g('pause_ms', 0)) + [2, 0, 0] + payload
    elif bid == 0x12:
        body = [0x12] + _words(g('pulse'), g('count'))
        pz.append(_pzx_block('PULS', lp(g('count'), g('pulse'))))
    else:
        body = [0x13, 3] + _words(g('p1'), g('p2'), g('p3'))
        pz.append(_pzx_block('PULS', _words(g('p1'), g('p2'), g('p3'))))
    if bid in (0x11, 0x14):
        bits = 8 + g('used_bits', 8)
        level = (g('pilot_len') + 2) % 2 if bid == 0x11 else 0
        pz.append(_pzx_block('DATA', [bits % 256, bits // 256, 0, level * 128] + _words(0) + [2, 2] + _words(g('zero'), g('zero'), g('one'), g('one')) + payload))
    closing = _pzx_block('PULS', _words(1000, 1000))
    try:
        tz = [tape._get_tzx_block(body, 0, 1, True, True)[1], tape._get_pzx_block(closing, 0, 9, False)[1]]
        pzb = [tape._get_pzx_block(raw, 0, k + 1, False)[1] for k, raw in enumerate(pz)] + [tape._get_pzx_block(closing, 0, 9, False)[1]]
        outs = []
        for blocks in (tz, pzb):
            blocks = [b for b in blocks if b.timings]
            for b in blocks:
                b.keys = None
            outs.append(tape.get_edges(blocks, 0, 0))
    except Exception as e:
        return True, 'raises %r' % e
    (te, tdb), (pe, pdb) = outs
    if list(te) != list(pe):
        return True, 'edges differ: TZX %r..., PZX %r...' % (list(te)[:12], list(pe)[:12])
    return False, 'same edges'


def check_files(item):
    """('files', nbytes): write_tap/parse_tap, write_pzx/parse_pzx, TZX 0x10: bytes and edges"""
    _, nbytes = item
    st = Stats()
    res = new_res()
    import skoolkit.tape as tape
    name = 'tape files, block of %d byte(s)' % nbytes

    def fn(path):
        data = [data_byte('d%d' % j) for j in range(nbytes)]
        second = [0xFF, 1, 2]
        blocks = [data, second]
        files = {}

        def fake_open(fname, mode='r'):
            files[fname] = FakeFile()
            return files[fname]
        tape.open = fake_open
        try:
            tape.write_tap('t.tap', blocks)
            tape.write_pzx('t.pzx', blocks)
        finally:
            del tape.open
        tap = tape.parse_tap(files['t.tap'].data)
        pzx = tape.parse_pzx(files['t.pzx'].data)
        tzx = bytesshim.SymBytes(b'ZXTape!\x1a\x01\x14')
        for b in blocks:
            tzx.extend([0x10, 1000 % 256, 1000 // 256, len(b) % 256, len(b) // 256])
            tzx.extend(b)
        tz = tape.parse_tzx(tzx, timings=True)
        for t_ in (tap, pzx, tz):
            t_.blocks = [b for b in t_.blocks if b.timings]       # as tapinfo / tap2sna do
            for b in t_.blocks:
                b.keys = None
        e_tap = tape.get_edges(tap.blocks)
        e_pzx = tape.get_edges(pzx.blocks)
        e_tzx = tape.get_edges(tz.blocks)
        return data, second, tap, pzx, tz, e_tap, e_pzx, e_tzx

    def on(p, out):
        res['obligations'] += 1
        if isinstance(out, tuple) and out[0] == 'exception':
            res['violations'].append(dict(key='%s:exception' % name, text='%s raises %r' % (name, out[1]), case=dict(kind='files', nbytes=nbytes)))
            return
        data, second, tap, pzx, tz, e_tap, e_pzx, e_tzx = out
        diffs, names, structural = [], [], []
        for label, t in (('TAP', tap), ('PZX', pzx), ('TZX', tz)):
            blocks = [b for b in t.blocks if b.data]
            if len(blocks) != 2:
                structural.append('%s: %d data blocks parsed, 2 written' % (label, len(blocks))); continue
            for want, got in ((data, blocks[0].data), (second, blocks[1].data)):
                if len(want) != len(got):
                    structural.append('%s: block of %d bytes parsed as %d bytes' % (label, len(want), len(got)))
                else:
                    for x, y in zip(want, got):
                        diffs.append(bv(x) != bv(y)); names.append('%s: byte read back differs' % label)
        # TAP and TZX (standard speed block) describe exactly the same signal up to the pause between the blocks (TAP: 1 s of
        # 3500000 T-states; TZX: as given in the block); write_pzx additionally gives each DATA block the PZX-conventional
        # 945 T-state tail pulse, so for PZX the pulses before and inside each data range are compared and the tail edge is allowed
        ta, da = e_tap
        for label, (edges, dbs), tails in (('TZX', e_tzx, 0), ('PZX', e_pzx, 1)):
            if len(dbs) != len(da) or len(da) != 2:
                structural.append('%s: %d data blocks in the edge list, TAP %d' % (label, len(dbs), len(da))); continue
            prev_a = prev_b = 0
            for k, (x, y) in enumerate(zip(da, dbs)):
                na, nb = x.end - x.start, y.end - y.start
                last = k == len(da) - 1
                if nb - na not in ((0,) if not tails else (1, 0) if last else (1,)):
                    structural.append('%s: data range of block %d has %d pulses, TAP %d' % (label, k + 1, nb, na)); continue
                if x.start - prev_a != y.start - prev_b:
                    structural.append('%s: %d pilot/sync edges before the data of block %d, TAP %d' % (label, y.start - prev_b, k + 1, x.start - prev_a)); continue
                # pilot and sync pulses (skip the first distance after a pause) and the data pulses
                for i in range(1 if k else 0, x.start - prev_a):
                    diffs.append(ne(edges[prev_b + i + 1] - edges[prev_b + i], ta[prev_a + i + 1] - ta[prev_a + i])); names.append('%s: pilot/sync pulse %d of block %d differs from TAP' % (label, i, k + 1))
                for i in range(na):
                    diffs.append(ne(edges[y.start + i + 1] - edges[y.start + i], ta[x.start + i + 1] - ta[x.start + i])); names.append('%s: data pulse %d of block %d differs from TAP' % (label, i, k + 1))
                prev_a, prev_b = x.end, y.end
        if structural:
            r, mod = p.check(model=True); which = structural
        else:
            r, mod, which = p.check_any(diffs, names)
        if r == 'unknown':
            res['inconclusive'].append(name); return
        if r == 'sat' or p.failed_obligations():
            if mod is None:
                r, mod = p.check(model=True); which = ['side obligation']
            dv = [mod.eval(bv(x), model_completion=True).as_long() for x in data]
            res['violations'].append(dict(key='%s:%s' % (name, which[0][:50]), text='%s with data %r: %s' % (name, dv, '; '.join(dict.fromkeys(which))[:200]), case=dict(kind='files', nbytes=nbytes, data=dv)))
            return
        res['discharged'] += 1
        res['nontrivial'] += 1
        if not res['samples']:
            res['samples'].append({'item': name, 'edges': len(e_tap[0]), 'verdict': 'unsat'})

    try:
        explore(fn, stats=st, on_path=on, max_paths=20000)
    except Inconclusive as e:
        res['inconclusive'].append('%s: %s' % (name, e))
    return finish(res, st)


def work(item):
    return {'edges': check_edges, 'files': check_files, 'puls': check_puls, 'tzx': check_tzx, 'tzx15': check_tzx15}[item[0]](item)


# ---------------------------------------------------------------------------
def replay(case):
    import skoolkit.tape as tape
    if case['kind'] == 'puls':
        return replay_puls(case)
    if case['kind'] == 'tzx':
        return replay_tzx(case)
    if case['kind'] == 'tzx15':
        return replay_tzx15(case)
    if case['kind'] == 'files':
        if 'data' not in case:
            return False, 'no input'
        import tempfile
        d = tempfile.mkdtemp(prefix='skverif_c11_')
        try:
            blocks = [case['data'], [0xFF, 1, 2]]
            tape.write_tap(os.path.join(d, 't.tap'), blocks)
            tape.write_pzx(os.path.join(d, 't.pzx'), blocks)
            tap = tape.parse_tap(os.path.join(d, 't.tap'))
            pzx = tape.parse_pzx(os.path.join(d, 't.pzx'))
            bad = []
            for label, t in (('TAP', tap), ('PZX', pzx)):
                got = [list(b.data) for b in t.blocks if b.data]
                if got != blocks:
                    bad.append('%s read back %r' % (label, got))
            for t_ in (tap, pzx):
                t_.blocks = [b for b in t_.blocks if b.timings]
                for b in t_.blocks:
                    b.keys = None
            ea, ep = tape.get_edges(tap.blocks), tape.get_edges(pzx.blocks)
            if len(ea[0]) != len(ep[0]) or [(x.start, x.end) for x in ea[1]] != [(x.start, x.end) for x in ep[1]]:
                bad.append('TAP and PZX edge lists differ in shape')
            return bool(bad), '; '.join(bad) or 'files round-trip'
        finally:
            import shutil
            shutil.rmtree(d, ignore_errors=True)
    vals = case.get('vals')
    if vals is None:
        return False, 'no input'
    _, shape, used_bits, polarity, bpol, zero_mode, nbytes = case['item'][:7]
    nz, no = case['item'][7] if len(case['item']) > 7 else (2, 2)
    g = lambda n, dflt=0: vals.get(n, dflt)

    def mk_block(k, with_data, pulses_spec):
        pulses = tuple((cnt, g('p%d_%d' % (k, j))) for j, cnt in enumerate(pulses_spec))
        if with_data:
            t = tape.TapeBlockTimings(pulses, tuple(g('z%d_%d' % (k, i), 1) for i in range(nz)), tuple(g('o%d_%d' % (k, i), 1) for i in range(no)), g('pause%d' % k), used_bits, False, g('tail%d' % k), bpol)
            data = [g('d%d_%d' % (k, j)) for j in range(nbytes)]
        else:
            t = tape.TapeBlockTimings(pulses, None, None, g('pause%d' % k), 8, False, 0, bpol)
            data = ()
        return tape.TapeBlock(k + 1, data, t)
    blocks = {'data': lambda: [mk_block(0, True, (2, 1, 1))], 'tone+data': lambda: [mk_block(0, False, (3,)), mk_block(1, True, (1,))],
              'data+data': lambda: [mk_block(0, True, (1,)), mk_block(1, True, ())], 'pulses': lambda: [mk_block(0, False, (2, 1)), mk_block(1, False, (1, 2))]}[shape]()
    for b in blocks:
        b.keys = None
    try:
        edges, dbs = tape.get_edges(blocks, g('first_edge'), polarity)
    except Exception as e:
        return True, 'raises %r' % e
    bad = []
    if any(b < a for a, b in zip(edges, edges[1:])):
        bad.append('edges decrease')
    t = g('first_edge')
    real = [d for d in dbs if d.data]
    wd = [b for b in blocks if b.data]
    if len(real) != len(wd):
        bad.append('data block count')
    for bi, blk in enumerate(blocks):
        tm = blk.timings
        for cnt, dur in tm.pulses:
            t += cnt * dur
        if blk.data and len(real) == len(wd):
            db = real[wd.index(blk)]
            if not zero_mode:
                if edges[db.start] != t:
                    bad.append('block %d data starts at edge time %d, expected %d' % (bi + 1, edges[db.start], t))
                k = db.start
                for j, byte in enumerate(blk.data):
                    bits = 8 if j < len(blk.data) - 1 else used_bits
                    for bit in range(bits):
                        w = tm.one if byte & (0x80 >> bit) else tm.zero
                        for pi in range(len(w)):
                            if k + 1 >= len(edges) or edges[k + 1] - edges[k] != w[pi]:
                                bad.append('bit %d of byte %d of block %d mis-encoded' % (bit, j, bi + 1))
                            k += 1
            for j, byte in enumerate(blk.data):
                bits = 8 if j < len(blk.data) - 1 else used_bits
                for bit in range(bits):
                    t += sum(tm.one) if byte & (0x80 >> bit) else sum(tm.zero)
            t += tm.tail
        if bi + 1 < len(blocks):
            t += tm.pause
    if edges[-1] > t:
        bad.append('last edge %d after the end of the signal %d' % (edges[-1], t))
    return bool(bad), '; '.join(dict.fromkeys(bad)) or 'edge list is as specified'


def main():
    args = harness.parse_args(PROP)
    if args.replay:
        ok, detail = replay(harness.load_case(args.replay))
        print(('REPRODUCED: ' if ok else 'not reproduced: ') + detail)
        return 1 if ok else 0
    items = []
    for shape in ('data', 'tone+data', 'data+data', 'pulses'):
        for polarity in (0, 1):
            for bpol in (None, 0, 1):
                if shape == 'pulses':
                    items.append(('edges', shape, 8, polarity, bpol, False, 0))
                    continue
                for ub in range(1, 9):
                    for zero_mode in (False, True):
                        if zero_mode and (ub not in (1, 8) or shape == 'data+data' or (args.tier == 'quick' and (bpol is not None or shape != 'data'))):
                            continue      # zero-length-pulse merging multiplies paths (each bit pulse forks on == 0): one block only
                        items.append(('edges', shape, ub, polarity, bpol, zero_mode, 1 if (shape == 'data+data' or zero_mode) else 2 if args.tier == 'thorough' or ub in (1, 7, 8) else 1))
    # bits encoded by different numbers of pulses (PZX DATA blocks and TZX generalized data allow it)
    for counts in ((1, 2), (2, 3), (3, 1)):
        for ub in ((1, 3, 8) if args.tier == 'quick' else range(1, 9)):
            for bpol in (None, 1):
                items.append(('edges', 'data', ub, 0, bpol, False, 1 if args.tier == 'quick' else 2, counts))
    for f1 in PULS_FORMS:
        items.append(('puls', (f1,), 0))
        for f2 in PULS_FORMS:
            items.append(('puls', (f1, f2), 0))
    items.append(('puls', ('count', 'short', 'short'), 9))
    items.append(('puls', ('long',), 16))
    if args.tier == 'thorough':
        items += [('puls', (f1, f2, f3), 0) for f1 in PULS_FORMS for f2 in PULS_FORMS for f3 in PULS_FORMS]
        items += [('puls', ('count',), bits) for bits in range(1, 17)]
    items += [('tzx', bid) for bid in (0x11, 0x12, 0x13, 0x14)]
    items += [('tzx15', (0xF0, 0x0F), 8), ('tzx15', (0x0F, 0xFF), 3), ('tzx15', (0xAA,), 5), ('tzx15', (0x00, 0x80, 0x7F), 8)]
    items += [('files', n) for n in ((1, 2) if args.tier == 'quick' else (1, 2, 3))]
    if args.only:
        items = [i for i in items if args.only in harness.item_name(i)]
    rep = harness.Report(
        PROP, args,
        functions=['skoolkit.tape.get_edges / _check_polarity / DataBlock.adjust', 'skoolkit.tape.parse_tap / parse_pzx / parse_tzx (standard speed block) / _get_pzx_block / _get_tzx_block / _get_tape_block_timings',
                   'skoolkit.tape.write_tap / write_pzx'],
        bounds={'blocks': '1-2 blocks: data; tone + data; data + data; pulse sequences', 'durations': 'every pulse width, bit-pulse width, tail, pause, first edge symbolic (0..65535; pause to 4000000)',
                'data': '1-2 bytes per block, each ranging over %r (the byte is realised by the per-byte timing table)' % (BYTE_VALUES,), 'used bits': '1..8', 'polarity': '0/1 x block polarity None/0/1',
                'block parsers': 'PZX PULS (entry forms short / count / long / count+long, 1-2 entries%s) and DATA with symbolic fields; TZX 0x11, 0x12, 0x13, 0x14 with symbolic fields (pulse counts 1-3, no pause) against equivalent PZX blocks; bits of 1/2, 2/3, 3/1 pulses' % (', 3 in thorough' if args.tier == 'thorough' else ''),
                'outside': 'long data, direct-recording and generalized-data TZX blocks, how a pause is rendered (TZX: edge at its end; PZX PAUS: level set at its start), CSW, tapinfo text, start/stop/skip options'},
        assumptions=['bit decoding assumes the zero and one pulse lists differ where compared (no assumption is needed: the obligation is per pulse width, not per decoded bit)'],
        stubs=['symbolic pulse widths used as keys of the per-call byte-timing cache are hashed by identity (cache misses only)', 'bytes/bytearray in skoolkit.tape are list-backed stand-ins; open() is replaced by an in-memory file for the two writers'],
        rule='one case per feasible path per (block shape, used bits, polarity, zero-length mode)',
        explanation='Bounded symbolic verification of the pulse-train generator: durations are symbolic, the data-block ranges and every bit pulse are tied to the specification by z3; file writers/parsers round-trip symbolic bytes.')
    for r in harness.pmap(work, items, args.jobs, init=init_worker, seed=args.seed):
        rep.add(r)
    if rep.paths < rep.items:
        rep.vacuity.append('some work items explored no path')
    return rep.finish(replay_in_subprocess=os.path.abspath(__file__))


if __name__ == '__main__':
    sys.exit(main())
