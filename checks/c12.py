#!/venv/bin/python
"""C12: a program converted by bin2tap loads back to the same memory (machine-code loader, no CLEAR).

bin2tap.run() is executed for a binary of N symbolic bytes with symbolic ORG, START and STACK (the stack pre-fill arithmetic
included); the loader it emits is then executed from 23296 by the real Simulator closures on a memory holding the real 48K
ROM, the jump to LD-BYTES (0x0556) is served by the real LoadTracer.fast_load with the emitted data block, and the ROM's
SA/LD-RET code runs to its final RET.  z3 decides: PC == START, SP == STACK, and memory[ORG + i] == byte i for every i except
the documented stack area STACK-14 .. STACK-1.
"""
import os
import sys

sys.path.insert(0, os.path.join(os.path.dirname(os.path.abspath(__file__)), '..', 'lib'))
import bootstrap  # noqa
import z3
import harness
import simharness as sh
from symx import Stats, HarnessError, Inconclusive, SymInt, SymBool, SymArray, bv, W, explore, sym_int, Path, rng

PROP = 'C12'
LOADER = 23296
_ROM = {}


def rom():
    if 'rom' not in _ROM:
        from skoolkit import ROM48, read_bin_file
        _ROM['rom'] = list(read_bin_file(ROM48, 16384))
    return _ROM['rom']


class RomMem(SymArray):
    """64K memory: the real 48K ROM below 0x4000 (reads with a concrete address are served from it directly), symbolic RAM"""

    def __getitem__(self, i):
        if isinstance(i, int) and 0 <= i < 16384:
            return rom()[i]
        if isinstance(i, slice):
            return SymArray.__getitem__(self, i)
        v = SymArray.__getitem__(self, i)
        s = z3.simplify(v.e) if isinstance(v, SymInt) else None
        if s is not None and z3.is_bv_value(s):
            return s.as_long()
        return v


def init_worker():
    sh.patch_tables()
    import skoolkit.loadtracer as lt
    import skoolkit.bin2tap as b2t
    import shims
    shims.install_isinstance(lt, b2t)
    lt.write_line = lambda *a: None
    import numerals
    numerals.install()          # fast_load formats the block address into its progress message


def new_res():
    return {'obligations': 0, 'discharged': 0, 'violations': [], 'inconclusive': [], 'samples': [], 'nontrivial': 0}


def finish(res, st):
    res.update(paths=st.paths, queries=st.queries, solver_s=st.solver_s, realisations=st.realisations)
    return res


class Obj:
    pass


class LoaderStuck(Exception):
    """the emitted loader does not reach its exit (reported as a violation after a concrete replay)"""


def make_tracer(lt, sim, data_block):
    t = lt.LoadTracer.__new__(lt.LoadTracer)
    t.simulator = sim
    t.frame_duration = sim.frame_duration
    blk = Obj()
    blk.data = data_block
    blk.fast_load = True
    blk.start, blk.end, blk.keys = 1, 2, None
    t.blocks = [blk]
    t.block_index = 0
    t.block_data_index = 1
    t.max_index = 2
    t.edges = [0, 1, 2]
    t.state = [0, 0, 0, 2, 0, 0, 0, 1, 0, 0]
    t.text = lt.TextReader()
    t.in_min_addr = 0x8000
    t.accelerators = set()
    t.pause = 1
    t.keys = None
    t.out7ffd = 0x10
    t.outfffd = 0
    t.ay = [0] * 16
    t.outfe = 0
    t.border = 7
    t.tsl_misses = t.dec_a_jr_hits = t.dec_a_jp_hits = t.dec_a_misses = 0
    t.read_port = t._read_port()
    return t


def run_loader(sim, memory, tracer, address, max_steps=80):
    """execute from `address` until PC is no longer a concrete address (the final RET pops START) -> steps taken"""
    regs = sim.registers
    for n in range(max_steps):
        pc = regs[24]
        if not isinstance(pc, int):
            s = z3.simplify(pc.e)
            if not z3.is_bv_value(s):
                # a return address read back from a stack whose position is symbolic: is it one value on this path?
                p = Path.cur
                r, mod = p.check(model=True)
                if r != 'sat':
                    raise Inconclusive('PC value')
                c = mod.eval(pc.e, model_completion=True)
                if p.check(pc.e != c) != 'unsat':
                    return n              # PC is not determined by the path: the final RET has popped START
                s = c
            pc = regs[24] = s.as_long()
        if pc == 0x0556:
            if not tracer.fast_load(sim):
                raise HarnessError('fast_load declined the block')
            continue
        if n and pc == LOADER and False:
            return n
        sim.opcodes[memory[pc]]()
    raise LoaderStuck('the loader did not finish within %d instructions' % max_steps)


def check_loader(item):
    """('loader', number of bytes[, loading screen length])"""
    N = item[1]
    scrlen = item[2] if len(item) > 2 else 0
    st = Stats()
    res = new_res()
    import skoolkit.bin2tap as b2t
    import skoolkit.loadtracer as lt
    import skoolkit.simulator as sm
    name = 'bin2tap loader (no CLEAR), %d byte(s)%s' % (N, ', loading screen of %d bytes' % scrlen if scrlen else '')
    mem = RomMem('mem', 65536)
    sim = sm.Simulator(mem, config={'frame_duration': 69888, 'int_active': 32})
    state = {}

    def fn(path):
        org = sym_int('org', 16384, 65535)
        start = sym_int('start', 0, 65535)
        stack = sym_int('stack', 16398, 65535)
        path.assume(org.e + N <= 65536)
        # outside the claim: the loader's own code (23296..23314) and the system variable it reads being overwritten while it runs,
        # i.e. a stack area or a data block that overlaps 23296-23319
        path.assume(z3.Or(stack.e <= LOADER, stack.e - 14 >= LOADER + 24))
        path.assume(z3.Or(org.e + N <= LOADER, org.e >= LOADER + 24))
        ram = [sym_int('d%d' % i, 0, 255) for i in range(N)]
        captured = []
        real = b2t.write_tap
        b2t.write_tap = lambda f, blocks: captured.append(blocks)
        try:
            b2t.run(list(ram), None, org, start, stack, 'prog.tap', ([(7 * i) % 256 for i in range(scrlen)] if scrlen else None), None, None, None)
        finally:
            b2t.write_tap = real
        blocks = captured[0]
        hdr, loader, data = blocks[2], blocks[3], blocks[4]
        address = hdr[14] + 256 * hdr[15]          # where LOAD ""CODE puts the block (screen + loader); BASIC then runs 23296
        if not isinstance(address, int) or not 16384 <= address <= LOADER:
            raise HarnessError('loader address %r' % (address,))
        block = loader[1:-1]
        if scrlen:
            # the screen bytes play no part in the execution: only the 19 bytes of loader code that end the block are placed
            # (at the position the block's header gives them); the rest of RAM is zero, so a loader that is not where BASIC
            # jumps to runs into NOPs and never finishes
            mem0 = z3.K(z3.BitVecSort(16), z3.BitVecVal(0, 8))
            address, block = address + len(block) - 19, block[-19:]
        else:
            mem0 = z3.Array('mem', z3.BitVecSort(16), z3.BitVecSort(8))
        mem.arr = mem0
        mem.writes = []
        for k, b in enumerate(block):
            mem[address + k] = b
        pre = mem.arr
        sim.registers[:] = [0] * 30
        sim.registers[12] = 0xFF40          # BASIC's stack when RANDOMIZE USR 23296 runs
        sim.registers[24] = LOADER
        sim.registers[26] = 1
        sim.registers[27] = 1
        tracer = make_tracer(lt, sim, data)
        sim.set_tracer(tracer, False, False)
        steps = run_loader(sim, mem, tracer, LOADER)
        state.update(org=org, start=start, stack=stack, ram=ram, pre=pre)
        return steps

    def vals(mod):
        g = lambda x: mod.eval(bv(x), model_completion=True).as_long()
        return dict(org=g(state['org']), start=g(state['start']), stack=g(state['stack']), data=[g(x) for x in state['ram']])

    def on(p, out):
        res['obligations'] += 1
        if isinstance(out, tuple) and out[0] == 'exception':
            r, mod = p.check(model=True)
            v = {}
            if mod is not None:
                v = {str(d): mod[d].as_long() for d in mod.decls() if hasattr(mod[d], 'as_long') and str(d) in ('org', 'start', 'stack') or str(d).startswith('d')}
            case = dict(kind='loader', n=N, scrlen=scrlen, org=v.get('org', 32768), start=v.get('start', 32768), stack=v.get('stack', 32768), data=[v.get('d%d' % i, 0) for i in range(N)])
            res['violations'].append(dict(key='%s:exception:%s' % (name, type(out[1]).__name__), text='%s raises %r with %r' % (name, out[1], case), case=case))
            return
        org, start, stack, ram = state['org'], state['start'], state['stack'], state['ram']
        regs = sim.registers
        diffs, names = [], []
        diffs.append(bv(regs[24]) != start.e); names.append('PC is not START when the loader finishes')
        diffs.append(bv(regs[12]) != stack.e); names.append('SP is not STACK when the loader finishes')
        for i in range(N):
            a = org.e + i
            a16 = z3.Extract(15, 0, a)
            in_stack = z3.And(a >= stack.e - 14, a <= stack.e - 1)
            diffs.append(z3.And(z3.Not(in_stack), z3.Select(mem.arr, a16) != z3.Extract(7, 0, ram[i].e))); names.append('byte %d of the binary is not at ORG+%d' % (i, i))
        r, mod, which = p.check_any(diffs, names)
        if r == 'unknown':
            res['inconclusive'].append(name); return
        if r == 'sat' or p.failed_obligations():
            if mod is None:
                r, mod = p.check(model=True); which = ['side obligation']
            v = vals(mod)
            res['violations'].append(dict(key='%s:%s' % (name, which[0][:40]), text='%s: %s with %r' % (name, '; '.join(which[:3]), v), case=dict(kind='loader', n=N, scrlen=scrlen, **v)))
            return
        res['discharged'] += 1
        res['nontrivial'] += 1
        if not res['samples']:
            res['samples'].append({'item': name, 'instructions executed': out, 'verdict': 'unsat'})

    try:
        explore(fn, stats=st, on_path=on, max_paths=3000)
    except Inconclusive as e:
        res['inconclusive'].append('%s: %s' % (name, e))
    return finish(res, st)


def bank_setup(lt, sm, blocks, nbanks, loader_addr):
    """128K machine with the bank loader (as LOADed by the BASIC loader) in place and the bank blocks on the tape"""
    from skoolkit.pagingtracer import Memory
    memory = Memory(out7ffd=0x10)                # 48K BASIC ROM paged in, as when the BASIC loader runs
    hdr, loader = blocks[-2 - nbanks], blocks[-1 - nbanks]
    address = hdr[14] + 256 * hdr[15]
    for k, b in enumerate(loader[1:-1]):
        memory[address + k] = b
    sim = sm.Simulator(memory, config={'frame_duration': 70908, 'int_active': 36})
    sim.registers[12] = 0x7FF0 if loader_addr >= 0x8000 else 0x5F00      # BASIC's stack sits below the CLEAR address
    sim.registers[24] = address
    sim.registers[26] = 1
    sim.registers[27] = 1
    tracer = make_tracer(lt, sim, None)
    tb = []
    for k, data in enumerate(blocks[len(blocks) - nbanks:]):
        blk = Obj()
        blk.data, blk.fast_load, blk.keys = data, True, None
        blk.start, blk.end = 10 * k + 1, 10 * k + 5
        tb.append(blk)
    tracer.blocks = tb
    tracer.block_index = 0
    tracer.block_data_index = tb[0].start
    tracer.max_index = 10 * len(tb) + 5
    tracer.edges = list(range(10 * len(tb) + 20))
    tracer.state = [0, 0, 0, tb[0].end, 0, 0, 0, 1, 0, 0]
    tracer.pause = 0
    tracer.out7ffd = 0x10
    sim.set_tracer(tracer, False, False)
    return memory, sim, tracer, address


def run_bank_loader(sim, memory, tracer, max_steps=400):
    regs = sim.registers
    for n in range(max_steps):
        pc = regs[24]
        if not isinstance(pc, int):
            s = z3.simplify(pc.e) if isinstance(pc, SymInt) else None
            if s is None or not z3.is_bv_value(s):
                return n
            pc = regs[24] = s.as_long()
        if pc == 0x0556:
            if not tracer.fast_load(sim):
                raise HarnessError('fast_load declined a bank block')
            tracer.state[1] = tracer.state[3]           # as LoadTracer.run does after a fast load: the tape is at the end of the block
            continue
        sim.opcodes[memory[pc]]()
    raise LoaderStuck('the bank loader did not finish within %d instructions' % max_steps)


def check_banks(item):
    """('banks', loader address, 7ffd value, bank numbers)"""
    _, loader_addr, o7, bankset = item
    st = Stats()
    res = new_res()
    import skoolkit.bin2tap as b2t
    import skoolkit.loadtracer as lt
    import skoolkit.simulator as sm
    name = 'bin2tap 128K bank loader at %d, --7ffd %d, banks %r' % (loader_addr, o7, list(bankset))
    state = {}

    def fn(path):
        start = sym_int('start', 0, 65535)
        banks = {}
        syms = {}
        for b in reversed(bankset):         # (a dict that is not in ascending order: run() must sort it)
            data = [(b * 37 + i) % 256 for i in range(16384)]
            for pos in (0, 1, 8191, 16383):
                v = sym_int('b%d_%d' % (b, pos), 0, 255)
                data[pos] = v
                syms[(b, pos)] = v
            banks[b] = data
        captured = []
        real = b2t.write_tap
        b2t.write_tap = lambda f, blocks: captured.append(blocks)
        try:
            b2t.run([1, 2, 3], loader_addr - 1, 40000 if loader_addr < 40000 else 30000, start, 0, 'prog.tap', None, banks, o7, loader_addr)
        finally:
            b2t.write_tap = real
        memory, sim, tracer, address = bank_setup(lt, sm, captured[0], len(bankset), loader_addr)
        if address != loader_addr:
            raise HarnessError('bank loader header address %r' % (address,))
        steps = run_bank_loader(sim, memory, tracer)
        state.update(start=start, syms=syms, memory=memory, sim=sim, tracer=tracer)
        return steps

    def on(p, out):
        res['obligations'] += 1
        case = dict(kind='banks', item=[loader_addr, o7, list(bankset)])
        if isinstance(out, tuple) and out[0] == 'exception':
            res['violations'].append(dict(key='%s:exception:%s' % (name, type(out[1]).__name__), text='%s raises %r' % (name, out[1]), case=case))
            return
        sim, memory, tracer = state['sim'], state['memory'], state['tracer']
        structural, diffs, names = [], [], []
        diffs.append(bv(sim.registers[24]) != state['start'].e); names.append('PC is not START when the bank loader finishes')
        if isinstance(tracer.out7ffd, int):
            if tracer.out7ffd != o7 & 0x3F:
                structural.append('port 0x7FFD holds %d, %d requested' % (tracer.out7ffd, o7))
        else:
            diffs.append(bv(tracer.out7ffd) != (o7 & 0x3F)); names.append('port 0x7FFD value')
        for (b, pos), v in state['syms'].items():
            got = memory.banks[b][pos]
            if isinstance(got, int):
                structural.append('RAM bank %d offset %d holds %d instead of its byte' % (b, pos, got))
            else:
                diffs.append(bv(got) != v.e); names.append('RAM bank %d offset %d' % (b, pos))
        for b in bankset:
            if [x for i, x in enumerate(memory.banks[b]) if isinstance(x, int) and x != (b * 37 + i) % 256][:1]:
                structural.append('RAM bank %d does not hold its block' % b)
        if structural:
            r, mod = p.check(model=True); which = structural
        else:
            r, mod, which = p.check_any(diffs, names)
        if r == 'unknown':
            res['inconclusive'].append(name); return
        if r == 'sat':
            case['start'] = mod.eval(state['start'].e, model_completion=True).as_long()
            res['violations'].append(dict(key='%s:%s' % (name, which[0][:40]), text='%s: %s (START=%d)' % (name, '; '.join(which[:3]), case['start']), case=case))
            return
        res['discharged'] += 1
        res['nontrivial'] += 1
        if not res['samples']:
            res['samples'].append({'item': name, 'instructions executed': out, 'verdict': 'unsat'})

    try:
        explore(fn, stats=st, on_path=on, max_paths=200)
    except Inconclusive as e:
        res['inconclusive'].append('%s: %s' % (name, e))
    return finish(res, st)


def replay_banks(case):
    import skoolkit.bin2tap as b2t
    import skoolkit.loadtracer as lt
    import skoolkit.simulator as sm
    lt.write_line = lambda *a: None
    loader_addr, o7, bankset = case['item']
    start = case.get('start', 32768)
    banks = {b: [(b * 37 + i) % 256 for i in range(16384)] for b in reversed(bankset)}
    captured = []
    real = b2t.write_tap
    b2t.write_tap = lambda f, blocks: captured.append(blocks)
    try:
        b2t.run([1, 2, 3], loader_addr - 1, 40000 if loader_addr < 40000 else 30000, start, 0, 'prog.tap', None, banks, o7, loader_addr)
    except Exception as e:
        return True, 'bin2tap.run raises %r' % e
    finally:
        b2t.write_tap = real
    memory, sim, tracer, address = bank_setup(lt, sm, captured[0], len(bankset), loader_addr)
    regs = sim.registers
    try:
        for n in range(2000):
            pc = regs[24]
            if n and not (pc < 0x4000 or address <= pc < address + 38):
                break
            if pc == 0x0556:
                if not tracer.fast_load(sim):
                    return True, 'fast_load declined a bank block'
                tracer.state[1] = tracer.state[3]
                continue
            sim.opcodes[memory[pc]]()
        else:
            return True, 'the bank loader does not finish (PC=%d after 2000 instructions)' % regs[24]
    except Exception as e:
        return True, 'raises %r' % e
    bad = []
    if regs[24] != start:
        bad.append('PC = %d, START = %d' % (regs[24], start))
    if tracer.out7ffd != o7 & 0x3F:
        bad.append('port 0x7FFD = %d, requested %d' % (tracer.out7ffd, o7))
    for b in bankset:
        if list(memory.banks[b]) != banks[b]:
            bad.append('RAM bank %d does not hold its block' % b)
    return bool(bad), '; '.join(bad[:4]) or 'banks loaded and program started as requested'


def work(item):
    return check_banks(item) if item[0] == 'banks' else check_loader(item)


def replay(case):
    """the same route with concrete values and plain lists"""
    if case['kind'] == 'banks':
        return replay_banks(case)
    import skoolkit.bin2tap as b2t
    import skoolkit.loadtracer as lt
    import skoolkit.simulator as sm
    lt.write_line = lambda *a: None
    N, org, start, stack, ram = case['n'], case['org'], case['start'], case['stack'], list(case['data'])
    captured = []
    real = b2t.write_tap
    b2t.write_tap = lambda f, blocks: captured.append(blocks)
    try:
        scrlen = case.get('scrlen', 0)
        b2t.run(list(ram), None, org, start, stack, 'prog.tap', ([(7 * i) % 256 for i in range(scrlen)] if scrlen else None), None, None, None)
    except Exception as e:
        return True, 'bin2tap.run raises %r' % e
    finally:
        b2t.write_tap = real
    blocks = captured[0]
    hdr, loader, data = blocks[2], blocks[3], blocks[4]
    address = hdr[14] + 256 * hdr[15]
    memory = rom() + [0] * 49152
    memory[address:address + len(loader) - 2] = loader[1:-1]
    sim = sm.Simulator(memory, config={'frame_duration': 69888, 'int_active': 32})
    sim.registers[12] = 0xFF40
    sim.registers[24] = LOADER             # BASIC runs RANDOMIZE USR 23296
    sim.registers[26] = 1
    sim.registers[27] = 1
    tracer = make_tracer(lt, sim, data)
    sim.set_tracer(tracer, False, False)
    regs = sim.registers
    try:
        for n in range(300):
            pc = regs[24]
            if n and pc == start and regs[12] == stack:
                break                       # the loader has handed over to the program
            if n and not (pc < 0x4000 or LOADER <= pc < LOADER + 24):
                break
            if pc == 0x0556:
                if not tracer.fast_load(sim):
                    return True, 'fast_load declined the block'
                continue
            sim.opcodes[memory[pc]]()
    except Exception as e:
        return True, 'raises %r' % e
    bad = []
    if regs[24] != start:
        bad.append('PC = %d, START = %d' % (regs[24], start))
    if regs[12] != stack:
        bad.append('SP = %d, STACK = %d' % (regs[12], stack))
    for i in range(N):
        a = org + i
        if not (stack - 14 <= a <= stack - 1) and memory[a] != ram[i]:
            bad.append('memory[%d] = %d, binary byte %d = %d' % (a, memory[a], i, ram[i]))
    return bool(bad), '; '.join(bad[:4]) or 'program loaded and started as requested'


def main():
    args = harness.parse_args(PROP)
    if args.replay:
        ok, detail = replay(harness.load_case(args.replay))
        print(('REPRODUCED: ' if ok else 'not reproduced: ') + detail)
        return 1 if ok else 0
    items = [('loader', n) for n in ((1, 2, 3, 5) if args.tier == 'quick' else (1, 2, 3, 4, 5, 6, 8))]
    items += [('loader', 2, 6912), ('loader', 2, 6144)]        # with a loading screen (full, and pixels only: padded to 6912)
    for la in ((32768, 33000, 24577) if args.tier == 'quick' else (32768, 33000, 24577, 33241, 48000, 27000, 32986)):
        for o7 in ((0, 17) if args.tier == 'quick' else (0, 1, 7, 16, 17, 23)):
            for bs in (((0,), (1, 3)) if args.tier == 'quick' else ((0,), (1, 3), (7,), (0, 1, 3, 4, 6, 7))):
                items.append(('banks', la, o7, bs))
    if args.only:
        items = [i for i in items if args.only in harness.item_name(i)]
    rep = harness.Report(
        PROP, args,
        functions=['skoolkit.bin2tap.run (stack pre-fill) / _get_data_loader / _get_bank_loader / _get_header / _make_block / _get_basic_loader', 'skoolkit.pagingtracer.PagingTracer.write_port / Memory.out7ffd', 'skoolkit.loadtracer.LoadTracer.fast_load / _read_port',
                   'skoolkit.simulator.Simulator closures executing the emitted loader and the ROM routine SA/LD-RET (real 48K ROM image)'],
        bounds={'binary': '1-%d symbolic bytes' % (5 if args.tier == 'quick' else 8), 'addresses': 'ORG 16384-65535 (block inside memory), START 0-65535, STACK 16398-65535, all symbolic',
                '128K': 'the bank loader (real _get_bank_loader output) run on a 128K memory with the real ROMs from a handful of loader addresses (incl. ones whose bank table crosses a page), --7ffd values and bank subsets; START and four bytes of each bank symbolic',
                'outside': 'the BASIC loader and LOAD ""CODE of the loader blocks (ROM interpreter), edge-level loading (fast_load serves LD-BYTES), the BASIC CLEAR path for the main block, loading screens, PZX output, interrupts during the '
                           'loader, binaries or stack areas overlapping the loader code at 23296-23319'},
        assumptions=['BASIC stack at 0xFF40 and IFF = 1, IM 1 when the loader starts', 'the tape block offered to LD-BYTES is the data block bin2tap emitted (LoadTracer state constructed directly)'],
        stubs=['write_tap replaced by a recorder (the blocks are used directly)', 'LoadTracer constructed without get_edges'],
        rule='one case per feasible path (stack/data overlap shapes) per binary length',
        explanation='The real converter output is executed by the real simulator on symbolic addresses and data; the final machine state is compared with the request by z3.')
    for r in harness.pmap(work, items, args.jobs, init=init_worker, seed=args.seed):
        rep.add(r)
    if rep.paths < rep.items:
        rep.vacuity.append('some work items explored no path')
    return rep.finish(replay_in_subprocess=os.path.abspath(__file__))


if __name__ == '__main__':
    sys.exit(main())
