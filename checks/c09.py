#!/venv/bin/python
"""C09: snapshot files round-trip: what is written is what is read back.

rle      Z80._make_z80_ram_block -> Z80._decompress on symbolic data (free bytes, and long runs of symbolic bytes), both block
         forms: the round trip is the identity, every emitted element is a byte, and a decoder written from the published
         format description agrees.
hdr      the real Z80 / SZX classes: registers and hardware state given as `name=<symbolic numeral>` specs are written with
         data() and read back with the reader class; every attribute read equals the value written (z3), for 48K and 128K;
         a reference decoder written from the Z80 v3 / ZX-State layouts reads the same values; the two formats agree.
poke     snapshot.poke / move on a symbolic address (inside a window) and value: exactly the addressed cells change.
"""
import os
import sys

sys.path.insert(0, os.path.join(os.path.dirname(os.path.abspath(__file__)), '..', 'lib'))
import bootstrap  # noqa
import z3
import harness
import numerals
import bytesshim
from symx import Stats, HarnessError, Inconclusive, SymInt, SymBool, bv, W, explore, sym_int, Path, rng

PROP = 'C09'


def init_worker():
    import skoolkit
    import skoolkit.snapshot as snap
    numerals.install(skoolkit, snap)
    bytesshim.install(snap)
    import shims
    shims.install_isinstance(snap, skoolkit)


def new_res():
    return {'obligations': 0, 'discharged': 0, 'violations': [], 'inconclusive': [], 'samples': [], 'nontrivial': 0}


def finish(res, st):
    res.update(paths=st.paths, queries=st.queries, solver_s=st.solver_s, realisations=st.realisations)
    return res


# ---------------------------------------------------------------------------
def ref_decompress(block):
    """decoder written from the Z80 format description: ED ED nn bb = nn copies of bb; anything else is literal"""
    out = []
    i = 0
    n = len(block)
    while i < n:
        if i + 3 < n and block[i] == 0xED and block[i + 1] == 0xED:
            count, value = block[i + 2], block[i + 3]
            out.extend([value] * int(count))
            i += 4
        else:
            out.append(block[i])
            i += 1
    return out


def eq_lists(a, b):
    if len(a) != len(b):
        return None
    return [bv(x) != bv(y) for x, y in zip(a, b)]


def check_rle(item):
    """('rle', shape, page) shape: tuple of run lengths; each run is one fresh symbolic byte repeated"""
    _, shape, page = item
    st = Stats()
    res = new_res()
    import skoolkit.snapshot as snap
    name = 'Z80 RLE runs %r %s' % (shape, 'v1 block' if page is None else 'page block')
    z = snap.Z80.__new__(snap.Z80)

    def fn(path):
        data = []
        for k, n in enumerate(shape):
            v = sym_int('x%d' % k, 0, 255)
            data.extend([v] * n)
        block = list(z._make_z80_ram_block(data, page))
        if page is None:
            body, tail = block[:-4], block[-4:]
            hdr = []
        else:
            hdr, body, tail = block[:3], block[3:], []
        back = z._decompress(body)
        return data, hdr, body, tail, back

    def on(p, out):
        res['obligations'] += 1
        if isinstance(out, tuple) and out[0] == 'exception':
            r, mod = p.check(model=True)
            vals = [mod.eval(z3.BitVec('x%d' % k, W), model_completion=True).as_long() for k in range(len(shape))]
            res['violations'].append(dict(key='%s:exception' % name, text='%s with run values %r raises %r' % (name, vals, out[1]), case=dict(kind='rle', shape=list(shape), page=page, vals=vals)))
            return
        data, hdr, body, tail, back = out
        bad = None
        diffs = []
        if page is None:
            if list(tail) != [0, 237, 237, 0]:
                bad = 'end marker'
        else:
            want = [len(body) % 256, len(body) // 256, page]
            if [int(x) if isinstance(x, int) else None for x in hdr] != want:
                bad = 'block header %r, expected %r' % (hdr, want)
        d1 = eq_lists(data, back)
        if d1 is None:
            bad = bad or 'decompressed length %d, original %d' % (len(back), len(data))
        else:
            diffs += d1
        # reference decoder (forks on symbolic comparisons like the real one)
        try:
            refd = ref_decompress(body)
            d2 = eq_lists(data, refd)
            if d2 is None:
                bad = bad or 'reference decoder yields %d bytes, original %d' % (len(refd), len(data))
            else:
                diffs += d2
        except Exception as e:
            bad = bad or 'reference decoder fails: %r' % e
        for b in body:
            lo, hi = rng(b)
            if lo < 0 or hi > 255:
                diffs.append(z3.Or(bv(b) < 0, bv(b) > 255))
        if bad:
            r, mod = p.check(model=True)
        else:
            r, mod, _w = p.check_any(diffs)
        if r == 'unknown':
            res['inconclusive'].append(name); return
        if r == 'sat' or p.failed_obligations():
            if mod is None:
                r, mod = p.check(model=True)
            vals = [mod.eval(z3.BitVec('x%d' % k, W), model_completion=True).as_long() for k in range(len(shape))]
            res['violations'].append(dict(key='%s:roundtrip' % name, text='%s with run values %r: %s' % (name, vals, bad or 'round trip is not the identity'),
                                          case=dict(kind='rle', shape=list(shape), page=page, vals=vals)))
            return
        res['discharged'] += 1
        res['nontrivial'] += 1
        if not res['samples']:
            res['samples'].append({'item': name, 'compressed_len': len(body), 'obligation': 'decompress(compress(d)) == d == reference_decode(compress(d)); all elements bytes', 'verdict': 'unsat'})

    try:
        explore(fn, stats=st, on_path=on)
    except Inconclusive as e:
        res['inconclusive'].append('%s: %s' % (name, e))
    return finish(res, st)


# ---------------------------------------------------------------------------
REGS8 = ['a', 'f', 'b', 'c', 'd', 'e', 'h', 'l', 'i', 'r', '^a', '^f', '^b', '^c', '^d', '^e', '^h', '^l']
REGS16 = ['bc', 'de', 'hl', 'ix', 'iy', 'sp', 'pc', '^bc', '^de', '^hl']


def ref_z80_header(d):
    """fields of a version 3 .z80 header, from the published layout (worldofspectrum.net z80format)"""
    w = lambda i: d[i] + 256 * d[i + 1]
    return dict(a=d[0], f=d[1], bc=w(2), hl=w(4), sp=w(8), i=d[10], r=(d[11] & 127) + 128 * (d[12] & 1), border=(d[12] >> 1) & 7, de=w(13), bc2=w(15), de2=w(17), hl2=w(19),
                a2=d[21], f2=d[22], iy=w(23), ix=w(25), iff1=d[27], iff2=d[28], im=d[29] & 3, hdrlen=w(30), pc=w(32), hw=d[34], out7ffd=d[35], outfffd=d[38], ay=[d[39 + k] for k in range(16)],
                tlow=w(55), thigh=d[57])


def ref_szx(data):
    """blocks of a ZX-State file, from the published layout (spectaculator.com/docs/zx-state)"""
    out = {}
    i = 8
    while i + 8 <= len(data):
        bid = ''.join(chr(int(b)) for b in data[i:i + 4] if b)
        size = int(data[i + 4]) + 256 * int(data[i + 5]) + 65536 * int(data[i + 6])
        blk = data[i + 8:i + 8 + size]
        w = lambda k: blk[k] + 256 * blk[k + 1]
        if bid == 'Z80R':
            out.update(f=blk[0], a=blk[1], bc=w(2), de=w(4), hl=w(6), f2=blk[8], a2=blk[9], bc2=w(10), de2=w(12), hl2=w(14), ix=w(16), iy=w(18), sp=w(20), pc=w(22),
                       i=blk[24], r=blk[25], iff1=blk[26], iff2=blk[27], im=blk[28], tstates=blk[29] + 256 * blk[30] + 65536 * blk[31] + 16777216 * blk[32], memptr=w(35))
        elif bid == 'SPCR':
            out.update(border=blk[0], out7ffd=blk[1], outfe=blk[3])
        elif bid == 'AY':
            out.update(outfffd=blk[1], ay=[blk[2 + k] for k in range(16)])
        i += 8 + size
    return out


def check_hdr(item):
    """('hdr', fmt, machine, group)"""
    _, fmt, machine, group = item
    st = Stats()
    res = new_res()
    import skoolkit.snapshot as snap
    from skoolkit.simutils import FRAME_DURATIONS
    name = '%s %s header round trip (%s)' % (fmt, machine, group)
    fd = FRAME_DURATIONS[machine != '48K']

    def ram():
        if machine == '48K':
            return [0] * 49152
        return [[0] * 16384 for _ in range(8)]

    def specs(path):
        regs, state, want = [], [], {}
        if group == 'regs8':
            for k, rn in enumerate(REGS8):
                v = sym_int('v_%s' % rn.replace('^', 'x'), 0, 255)
                regs.append('%s=%s' % (rn, v))
                want[rn] = v
        elif group == 'regs16':
            for rn in REGS16:
                v = sym_int('v_%s' % rn.replace('^', 'x'), 0, 65535)
                regs.append('%s=%s' % (rn, v))
                want[rn] = v
            v = sym_int('v_memptr', 0, 65535)
            regs.append('memptr=%s' % v)
            want['memptr'] = v
            # the low halves of r (bit 7) and i travel with the 8-bit group
        else:
            v = sym_int('v_iff', 0, 1); state.append('iff=%s' % v); want['iff'] = v
            v = sym_int('v_im', 0, 2); state.append('im=%s' % v); want['im'] = v
            v = sym_int('v_border', 0, 7); state.append('border=%s' % v); want['border'] = v
            v = sym_int('v_t', 0, fd - 1); state.append('tstates=%s' % v); want['tstates'] = v
            v = sym_int('v_fe', 0, 255); state.append('fe=%s' % v); want['fe'] = v
            if machine != '48K':
                v = sym_int('v_7ffd', 0, 255); state.append('7ffd=%s' % v); want['7ffd'] = v
                v = sym_int('v_fffd', 0, 255); state.append('fffd=%s' % v); want['fffd'] = v
                for k in (0, 7, 15):
                    v = sym_int('v_ay%d' % k, 0, 255); state.append('ay[%d]=%s' % (k, v)); want['ay%d' % k] = v
        return regs, state, want

    def fn(path):
        regs, state, want = specs(path)
        cls = snap.Z80 if fmt == 'z80' else snap.SZX
        s = cls(ram=ram(), machine=machine)
        s.set_registers_and_state(regs, state)
        data = s.data()
        back = cls(data)
        return want, list(data), back

    PAIRS = {'bc': ('b', 'c'), 'de': ('d', 'e'), 'hl': ('h', 'l'), '^bc': ('^b', '^c'), '^de': ('^d', '^e'), '^hl': ('^h', '^l')}
    ATTR = {'a': 'a', 'f': 'f', 'i': 'i', 'r': 'r', '^a': 'a2', '^f': 'f2', 'bc': 'bc', 'de': 'de', 'hl': 'hl', 'ix': 'ix', 'iy': 'iy', 'sp': 'sp', 'pc': 'pc',
            '^bc': 'bc2', '^de': 'de2', '^hl': 'hl2'}

    def on(p, out):
        res['obligations'] += 1
        if isinstance(out, tuple) and out[0] == 'exception':
            res['violations'].append(dict(key='%s:exception' % name, text='%s raises %r' % (name, out[1]), case=dict(kind='hdr', fmt=fmt, machine=machine, group=group)))
            return
        want, data, back = out
        exp = {}
        for rn, v in want.items():
            if rn in ATTR:
                exp[ATTR[rn]] = v
        if group == 'regs8':
            for pair, (hi, lo) in PAIRS.items():
                exp[ATTR[pair]] = want[lo] + 256 * want[hi]
        if 'memptr' in want and fmt == 'szx':
            exp['memptr'] = want['memptr']
        if 'iff' in want:
            exp['iff1'] = want['iff']; exp['iff2'] = want['iff']
            exp['im'] = want['im']; exp['border'] = want['border']; exp['tstates'] = want['tstates']
            if fmt == 'szx':
                exp['outfe'] = want['fe']
            if machine != '48K':
                exp['out7ffd'] = want['7ffd']; exp['outfffd'] = want['fffd']
        diffs, names = [], []
        for attr, v in exp.items():
            diffs.append(bv(getattr(back, attr)) != bv(v)); names.append('%s read back' % attr)
        if 'ay0' in want:
            for k in (0, 7, 15):
                diffs.append(bv(back.ay[k]) != bv(want['ay%d' % k])); names.append('ay[%d] read back' % k)
        # reference decoder over the bytes written
        if fmt == 'z80':
            ref = ref_z80_header(data)
            if ref['hdrlen'] != 54 or int(data[6]) or int(data[7]):
                diffs.append(z3.BoolVal(True)); names.append('not a version 3 header')
            for attr, v in exp.items():
                if attr in ref:
                    diffs.append(bv(ref[attr]) != bv(v)); names.append('%s per the published layout' % attr)
            if 'tstates' in exp:
                q = fd // 4
                t = SymInt(bv(ref['tlow']), 0, 65535)
                hi = SymInt(bv(ref['thigh']), 0, 255)
                # published: "the hi T state counter counts up modulo 4; just after the ULA interrupt it is 3"; within each quarter
                # frame the low counter counts down from q-1 to 0
                tdec = ((hi + 1) % 4) * q + (q - 1 - t)
                diffs.append(z3.Or(bv(t) >= q, bv(hi) > 3, bv(tdec) != bv(exp['tstates']))); names.append('tstates per the published layout')
            if 'ay0' in want:
                for k in (0, 7, 15):
                    diffs.append(bv(ref['ay'][k]) != bv(want['ay%d' % k])); names.append('ay[%d] per the published layout' % k)
        else:
            ref = ref_szx(data)
            for attr, v in exp.items():
                if attr in ref:
                    diffs.append(bv(ref[attr]) != bv(v)); names.append('%s per the published layout' % attr)
            if 'ay0' in want:
                for k in (0, 7, 15):
                    diffs.append(bv(ref['ay'][k]) != bv(want['ay%d' % k])); names.append('ay[%d] per the published layout' % k)
        for b in data:
            lo, hi = rng(b)
            if lo < 0 or hi > 255:
                diffs.append(z3.Or(bv(b) < 0, bv(b) > 255)); names.append('file element is not a byte')
        if p.data.get('radix_confusion'):
            diffs.append(z3.BoolVal(True)); names.append('a numeral is parsed in the wrong radix')
        r, mod, which = p.check_any(diffs, names)
        if r == 'unknown':
            res['inconclusive'].append(name); return
        if r == 'sat' or p.failed_obligations():
            if mod is None:
                r, mod = p.check(model=True); which = ['side obligation']
            vals = {k: mod.eval(bv(v), model_completion=True).as_long() for k, v in want.items()}
            res['violations'].append(dict(key='%s:%s' % (name, which[0]), text='%s with %r: %s' % (name, vals, '; '.join(which[:4])),
                                          case=dict(kind='hdr', fmt=fmt, machine=machine, group=group, vals=vals)))
            return
        res['discharged'] += 1
        res['nontrivial'] += 1
        if not res['samples']:
            res['samples'].append({'item': name, 'attributes_compared': sorted(exp), 'verdict': 'unsat'})

    try:
        explore(fn, stats=st, on_path=on)
    except Inconclusive as e:
        res['inconclusive'].append('%s: %s' % (name, e))
    return finish(res, st)


# ---------------------------------------------------------------------------
def check_poke(item):
    """('poke', op, paged)"""
    _, op, paged = item
    st = Stats()
    res = new_res()
    import skoolkit.snapshot as snap
    name = 'poke %s%s' % ({'': 'value', '^': 'xor', '+': 'add'}[op], ' in a bank' if paged else '')
    BASE = 40000

    def fn(path):
        cells = {}
        if paged:
            banks = [[0] * 0x4000 for _ in range(8)]
            mem = snap.Memory(banks=banks, page=0)
            page = sym_int('page', 0, 7)
        else:
            mem = snap.Memory(snapshot=[0] * 65536)
        addr = sym_int('addr', BASE, BASE + 3)
        val = sym_int('val', 0, 255)
        old = {}
        for a in range(BASE - 1, BASE + 5):
            if paged:
                # every bank holds its own value (an implementation reading the old value through the 64K map is then visible)
                for bi, b in enumerate(banks):
                    v = sym_int('m%d_%d' % (bi, a), 0, 255)
                    old[(bi, a)] = v
                    b[a % 0x4000] = v
            else:
                v = sym_int('m%d' % a, 0, 255)
                old[a] = v
                mem[a] = v
        spec = ('%s:' % page if paged else '') + '%s,%s%s' % (addr, op, val)
        snap.poke(mem, spec)
        return mem, addr, val, old, (page if paged else None), (banks if paged else None)

    def on(p, out):
        res['obligations'] += 1
        if isinstance(out, tuple) and out[0] == 'exception':
            res['violations'].append(dict(key='%s:exception' % name, text='%s raises %r' % (name, out[1]), case=dict(kind='poke', op=op, paged=paged)))
            return
        mem, addr, val, old, page, banks = out
        diffs = []
        f = {'': lambda b: val, '^': lambda b: b ^ val, '+': lambda b: (b + val) & 255}[op]
        if paged:
            pg = p.realise(page.e, 'page')
            for bi, b in enumerate(banks):
                for a in range(BASE - 1, BASE + 5):
                    cur = b[a % 0x4000]
                    hit = z3.And(addr.e == a, z3.BoolVal(bi == pg))
                    diffs.append(bv(cur) != z3.If(hit, bv(f(old[(bi, a)])), bv(old[(bi, a)])))
        else:
            for a in range(BASE - 1, BASE + 5):
                diffs.append(bv(mem[a]) != z3.If(addr.e == a, bv(f(old[a])), bv(old[a])))
            if any(not (isinstance(mem[a], int) and mem[a] == 0) for a in (16384, 30000, 65535)):
                diffs.append(z3.BoolVal(True))
        r, mod, _w = p.check_any(diffs)
        if r == 'unknown':
            res['inconclusive'].append(name); return
        if r == 'sat':
            res['violations'].append(dict(key='%s:frame' % name, text='%s: cells other than the addressed one change, or the addressed cell gets the wrong value (addr %d, value %d)'
                                          % (name, mod.eval(addr.e, model_completion=True).as_long(), mod.eval(val.e, model_completion=True).as_long()),
                                          case=dict(kind='poke', op=op, paged=paged, page=(pg if paged else None), addr=mod.eval(addr.e, model_completion=True).as_long(), val=mod.eval(val.e, model_completion=True).as_long())))
            return
        res['discharged'] += 1
        res['nontrivial'] += 1

    try:
        explore(fn, stats=st, on_path=on)
    except Inconclusive as e:
        res['inconclusive'].append('%s: %s' % (name, e))
    return finish(res, st)


def check_pokerange(item):
    """('pokerange', paged): --poke a1-a2-step,v pokes a1, a1+step, ... up to and including a2, nothing else"""
    _, paged = item
    st = Stats()
    res = new_res()
    import skoolkit.snapshot as snap
    name = 'poke range with step%s' % (' in a bank' if paged else '')
    BASE = 49160 if paged else 40000
    LO, HI = BASE - 2, BASE + 10

    def fn(path):
        if paged:
            banks = [[0] * 0x4000 for _ in range(8)]
            mem = snap.Memory(banks=banks, page=0)
        else:
            mem = snap.Memory(snapshot=[0] * 65536)
        a1 = sym_int('a1', BASE, BASE + 1)
        a2 = sym_int('a2', BASE + 1, BASE + 6)
        step = sym_int('step', 1, 3)
        val = sym_int('val', 0, 255)
        old = {}
        for a in range(LO, HI):
            v = sym_int('m%d' % a, 0, 255)
            old[a] = v
            if paged:
                banks[3][a % 0x4000] = v
            else:
                mem[a] = v
        snap.poke(mem, ('3:' if paged else '') + '%s-%s-%s,%s' % (a1, a2, step, val))
        cur = {a: (banks[3][a % 0x4000] if paged else mem[a]) for a in range(LO, HI)}
        return a1, a2, step, val, old, cur

    def on(p, out):
        res['obligations'] += 1
        if isinstance(out, tuple) and out[0] == 'exception':
            res['violations'].append(dict(key='%s:exception' % name, text='%s raises %r' % (name, out[1]), case=dict(kind='pokerange', paged=paged)))
            return
        a1, a2, step, val, old, cur = out
        c1, c2, cs = p.realise(a1.e, 'a1'), p.realise(a2.e, 'a2'), p.realise(step.e, 'step')
        hit = set(range(c1, c2 + 1, cs))
        diffs = [bv(cur[a]) != (bv(val) if a in hit else bv(old[a])) for a in range(LO, HI)]
        r, mod, _w = p.check_any(diffs)
        if r == 'unknown':
            res['inconclusive'].append(name); return
        if r == 'sat':
            res['violations'].append(dict(key='%s:frame' % name, text='%s: --poke %d-%d-%d changes cells other than %s (or misses one)' % (name, c1, c2, cs, sorted(hit)),
                                          case=dict(kind='pokerange', paged=paged, a1=c1, a2=c2, step=cs)))
            return
        res['discharged'] += 1
        res['nontrivial'] += 1

    try:
        explore(fn, stats=st, on_path=on)
    except Inconclusive as e:
        res['inconclusive'].append('%s: %s' % (name, e))
    return finish(res, st)


def check_move(item):
    """('move', mode): --move src,length,dest copies the block and changes nothing else; mode: 'flat', 'overlap', 'paged', 'bankend'"""
    _, mode = item
    st = Stats()
    res = new_res()
    import skoolkit.snapshot as snap
    name = 'move (%s)' % mode
    paged = mode in ('paged', 'bankend')
    BASE = 40000 if not paged else (49152 + 100 if mode == 'paged' else 49152 + 0x4000 - 5)
    LO, HI = BASE - 1, min(BASE + 12, 65536)
    SP, DP = 1, 4

    def fn(path):
        old = {}
        if paged:
            banks = [[0] * 0x4000 for _ in range(8)]
            mem = snap.Memory(banks=banks, page=0)
            for bi in (SP, DP):
                for a in range(LO, HI):
                    v = sym_int('m%d_%d' % (bi, a), 0, 255)
                    old[(bi, a)] = v
                    banks[bi][a % 0x4000] = v
        else:
            banks = None
            mem = snap.Memory(snapshot=[0] * 65536)
            for a in range(LO, HI):
                v = sym_int('m%d' % a, 0, 255)
                old[a] = v
                mem[a] = v
        src = sym_int('src', BASE, BASE + 3)
        if mode == 'overlap':
            dest = sym_int('dest', BASE, BASE + 6)
        else:
            dest = sym_int('dest', BASE + 4, BASE + 6) if not paged else sym_int('dest', BASE, BASE + 3)
        length = sym_int('length', 1, 4)
        spec = ('%d:%s,%s,%d:%s' % (SP, src, length, DP, dest)) if paged else '%s,%s,%s' % (src, length, dest)
        snap.move(mem, spec)
        return mem, banks, src, dest, length, old

    def on(p, out):
        res['obligations'] += 1
        if isinstance(out, tuple) and out[0] == 'exception':
            res['violations'].append(dict(key='%s:exception' % name, text='%s raises %r' % (name, out[1]), case=dict(kind='move', mode=mode)))
            return
        mem, banks, src, dest, length, old = out
        s_, d_, n_ = p.realise(src.e, 'src'), p.realise(dest.e, 'dest'), p.realise(length.e, 'length')
        case = dict(kind='move', mode=mode, src=s_, dest=d_, length=n_)
        structural, diffs = [], []
        if paged:
            for bi, b in enumerate(banks):
                if len(b) != 0x4000:
                    structural.append('bank %d has %d bytes after the move' % (bi, len(b)))
            if not structural:
                for a in range(LO, HI):
                    o = a % 0x4000
                    exp = old[(SP, s_ + (a - d_))] if d_ <= a < d_ + n_ and (s_ + a - d_) < HI else old[(DP, a)]
                    if d_ <= a < d_ + n_ and (s_ + a - d_) >= HI:
                        continue
                    diffs.append(bv(banks[DP][o]) != bv(exp))
                    diffs.append(bv(banks[SP][o]) != bv(old[(SP, a)]))
        else:
            for a in range(LO, HI):
                exp = old[s_ + (a - d_)] if d_ <= a < d_ + n_ else old[a]
                diffs.append(bv(mem[a]) != bv(exp))
        if structural:
            r, mod = p.check(model=True)
        else:
            r, mod, _w = p.check_any(diffs)
        if r == 'unknown':
            res['inconclusive'].append(name); return
        if r == 'sat':
            res['violations'].append(dict(key='%s:%s' % (name, 'bank size' if structural else 'frame'), text='%s: --move %d,%d,%d %s' % (name, s_, n_, d_, '; '.join(structural) or 'does not leave exactly the copied block at the destination'), case=case))
            return
        res['discharged'] += 1
        res['nontrivial'] += 1

    try:
        explore(fn, stats=st, on_path=on)
    except Inconclusive as e:
        res['inconclusive'].append('%s: %s' % (name, e))
    return finish(res, st)


def replay_move(case):
    import skoolkit.snapshot as snap
    mode, s_, d_, n_ = case['mode'], case['src'], case['dest'], case['length']
    if mode in ('paged', 'bankend'):
        banks = [[(bi * 31 + o * 7 + o // 256) % 256 for o in range(0x4000)] for bi in range(8)]
        exp = [list(b) for b in banks]
        mem = snap.Memory(banks=banks, page=0)
        try:
            snap.move(mem, '1:%d,%d,4:%d' % (s_, n_, d_))
        except Exception as e:
            return True, 'raises %r' % e
        sizes = [len(b) for b in banks]
        if sizes != [0x4000] * 8:
            return True, 'bank sizes after --move 1:%d,%d,4:%d: %r' % (s_, n_, d_, sizes)
        for k in range(n_):
            if (d_ + k) % 0x4000 >= (d_ % 0x4000) and (s_ % 0x4000) + k < 0x4000 and (d_ % 0x4000) + k < 0x4000:
                exp[4][(d_ % 0x4000) + k] = exp[1][(s_ % 0x4000) + k]
        got = [list(b) for b in banks]
        return got != exp, 'paged move result differs' if got != exp else 'block copied, nothing else changed'
    data = [(a * 7 + a // 256) % 256 for a in range(65536)]
    mem = snap.Memory(snapshot=list(data))
    snap.move(mem, '%d,%d,%d' % (s_, n_, d_))
    exp = list(data)
    exp[d_:d_ + n_] = data[s_:s_ + n_]
    got = [0] * 16384 + mem[16384:65536]
    exp[:16384] = [0] * 16384
    return got != exp, '--move %d,%d,%d: %r at the destination, expected %r' % (s_, n_, d_, got[d_:d_ + n_], exp[d_:d_ + n_]) if got != exp else 'block copied, nothing else changed'


def work(item):
    return {'rle': check_rle, 'hdr': check_hdr, 'poke': check_poke, 'pokerange': check_pokerange, 'move': check_move}[item[0]](item)


# ---------------------------------------------------------------------------
def replay(case):
    import skoolkit.snapshot as snap
    kind = case['kind']
    if kind == 'rle':
        if 'vals' not in case:
            return False, 'no input'
        data = []
        for v, n in zip(case['vals'], case['shape']):
            data += [v] * n
        z = snap.Z80.__new__(snap.Z80)
        try:
            block = list(z._make_z80_ram_block(data, case['page']))
        except Exception as e:
            return True, 'compress raises %r' % e
        body = block[:-4] if case['page'] is None else block[3:]
        try:
            back = z._decompress(body)
        except Exception as e:
            return True, 'decompress raises %r' % e
        ref = ref_decompress(body)
        bad = back != data or ref != data
        return bad, 'data %r... -> %r -> %r...' % (data[:8], body[:12], back[:8])
    if kind == 'hdr':
        vals = case.get('vals')
        if not vals:
            return False, 'no input'
        fmt, machine, group = case['fmt'], case['machine'], case['group']
        cls = snap.Z80 if fmt == 'z80' else snap.SZX
        ram = [0] * 49152 if machine == '48K' else [[0] * 16384 for _ in range(8)]
        regs, state = [], []
        for k, v in vals.items():
            if k.startswith('ay'):
                state.append('ay[%s]=%d' % (k[2:], v))
            elif k in ('iff', 'im', 'border', 'tstates', 'fe', '7ffd', 'fffd'):
                state.append('%s=%d' % (k, v))
            else:
                regs.append('%s=%d' % (k, v))
        try:
            s = cls(ram=ram, machine=machine)
            s.set_registers_and_state(regs, state)
            back = cls(bytes(s.data()))
        except Exception as e:
            return True, 'raises %r' % e
        bad = []
        amap = {'a': 'a', 'f': 'f', 'i': 'i', 'r': 'r', '^a': 'a2', '^f': 'f2', 'bc': 'bc', 'de': 'de', 'hl': 'hl', 'ix': 'ix', 'iy': 'iy', 'sp': 'sp', 'pc': 'pc', '^bc': 'bc2', '^de': 'de2', '^hl': 'hl2',
                'im': 'im', 'border': 'border', 'tstates': 'tstates'}
        for k, v in vals.items():
            if k in amap and getattr(back, amap[k]) != v:
                bad.append('%s written %d read %r' % (k, v, getattr(back, amap[k])))
        if 'iff' in vals and back.iff1 != vals['iff']:
            bad.append('iff')
        if machine != '48K':
            for k, a in (('7ffd', 'out7ffd'), ('fffd', 'outfffd')):
                if k in vals and getattr(back, a) != vals[k]:
                    bad.append('%s written %d read %r' % (k, vals[k], getattr(back, a)))
            for k in vals:
                if k.startswith('ay') and back.ay[int(k[2:])] != vals[k]:
                    bad.append(k)
        if fmt == 'szx' and 'fe' in vals and back.outfe != vals['fe']:
            bad.append('fe')
        if fmt == 'szx' and 'memptr' in vals and back.memptr != vals['memptr']:
            bad.append('memptr')
        for pair, (hi, lo) in {'bc': ('b', 'c'), 'de': ('d', 'e'), 'hl': ('h', 'l'), '^bc': ('^b', '^c'), '^de': ('^d', '^e'), '^hl': ('^h', '^l')}.items():
            if hi in vals and getattr(back, amap[pair]) != vals[lo] + 256 * vals[hi]:
                bad.append(pair)
        return bool(bad), '; '.join(bad) or 'attributes read back as written'
    if kind == 'pokerange':
        if 'a1' not in case:
            return False, 'no input'
        if case['paged']:
            banks = [[7] * 0x4000 for _ in range(8)]
            mem = snap.Memory(banks=banks, page=0)
            before = [list(b) for b in banks]
            snap.poke(mem, '3:%d-%d-%d,9' % (case['a1'], case['a2'], case['step']))
            exp = [list(b) for b in before]
            for a in range(case['a1'], case['a2'] + 1, case['step']):
                exp[3][a % 0x4000] = 9
            return [list(b) for b in banks] != exp, 'banks after the poke differ from the documented effect' if [list(b) for b in banks] != exp else 'as documented'
        mem = snap.Memory(snapshot=[7] * 65536)
        snap.poke(mem, '%d-%d-%d,9' % (case['a1'], case['a2'], case['step']))
        exp = [7] * 65536
        exp[:16384] = [0] * 16384
        for a in range(case['a1'], case['a2'] + 1, case['step']):
            exp[a] = 9
        got = mem[0:65536]
        got[:16384] = [0] * 16384
        return got != exp, 'memory after the poke differs from the documented effect' if got != exp else 'as documented'
    if kind == 'move':
        if 'src' not in case:
            return False, 'no input'
        return replay_move(case)
    if kind == 'poke':
        if 'addr' not in case:
            return False, 'no input'
        if case.get('paged'):
            banks = [[(bi * 31 + o * 7 + o // 256) % 256 for o in range(0x4000)] for bi in range(8)]
            exp = [list(b) for b in banks]
            mem = snap.Memory(banks=banks, page=0)
            snap.poke(mem, '%d:%d,%s%d' % (case['page'], case['addr'], case['op'], case['val']))
            f = {'': lambda b: case['val'], '^': lambda b: b ^ case['val'], '+': lambda b: (b + case['val']) & 255}[case['op']]
            o = case['addr'] % 0x4000
            exp[case['page']][o] = f(exp[case['page']][o])
            got = [list(b) for b in banks]
            return got != exp, 'paged poke %d:%d: bank cell is %d, expected %d' % (case['page'], case['addr'], got[case['page']][o], exp[case['page']][o]) if got != exp else 'poke changes exactly the addressed cell'
        mem = snap.Memory(snapshot=list(range(256)) * 256)
        before = mem[0:65536]
        snap.poke(mem, '%d,%s%d' % (case['addr'], case['op'], case['val']))
        after = mem[0:65536]
        f = {'': lambda b: case['val'], '^': lambda b: b ^ case['val'], '+': lambda b: (b + case['val']) & 255}[case['op']]
        exp = list(before)
        exp[case['addr']] = f(before[case['addr']])
        return after != exp, 'poke effect differs' if after != exp else 'poke changes exactly the addressed cell'
    return False, 'no replay'


def main():
    args = harness.parse_args(PROP)
    if args.replay:
        ok, detail = replay(harness.load_case(args.replay))
        print(('REPRODUCED: ' if ok else 'not reproduced: ') + detail)
        return 1 if ok else 0
    items = []
    nfree = 7 if args.tier == "quick" else 10
    for page in (None, 4):
        for n in range(1, nfree + 1):
            items.append(('rle', (1,) * n, page))
    runs = [1, 2, 3, 4, 5, 6, 254, 255, 256, 257, 510, 511, 600] if args.tier == 'quick' else list(range(1, 601))
    for n in runs:
        items.append(('rle', (n,), 4))
        items.append(('rle', (1, n), 4))
        items.append(('rle', (n, 1), 4))
        if args.tier == 'thorough' or n in (2, 5, 255, 256):
            items.append(('rle', (n,), None))
            items.append(('rle', (1, n, 1), None))
            items.append(('rle', (2, n, 2), 4))
    for fmt in ('z80', 'szx'):
        for machine in ('48K', '128K', '+2'):
            for group in ('regs8', 'regs16', 'state'):
                items.append(('hdr', fmt, machine, group))
    for op in ('', '^', '+'):
        items.append(('poke', op, False))
        items.append(('poke', op, True))
    items += [('pokerange', False), ('pokerange', True)]
    items += [('move', m) for m in ('flat', 'overlap', 'paged', 'bankend')]
    if args.only:
        items = [i for i in items if args.only in harness.item_name(i)]
    rep = harness.Report(
        PROP, args,
        functions=['skoolkit.snapshot.Z80._make_z80_ram_block / _decompress / _set_registers / _set_state / _read / data / set_ram', 'skoolkit.snapshot.SZX._add_zxst* / set_registers_and_state / data / _read / _get_zxstrampage',
                   'skoolkit.snapshot.Memory', 'skoolkit.snapshot.poke / _get_page', 'skoolkit.get_int_param / get_word / get_dword'],
        bounds={'rle free bytes': '1..%d fully symbolic bytes, both block forms' % nfree, 'rle runs': 'runs of one symbolic byte of length %s, alone / after / before / between other symbolic bytes' % ('1..600 (every length)' if args.tier == 'thorough' else runs),
                'headers': 'all 8-bit registers, all 16-bit registers + MEMPTR, and all state attributes symbolic over their full ranges; 48K, 128K, +2; RAM all zero', 'poke': 'address in a 4-cell window, value 0..255, operators = ^ +, with and without a bank prefix; ranges a1-a2-step with a1 in 2, a2 in 6, step in 1..3 positions (realised)',
                'outside': 'zlib itself (opaque invertible stub), file I/O, SNA, --move/--patch, bin2sna/snapmod command-line parsing'},
        assumptions=['numeral tokens abstract Python format()/int()', 'zlib.compress/decompress are inverse (stub)'],
        stubs=['bytes/bytearray/zlib shadowed in skoolkit.snapshot by list-backed stand-ins (lib/bytesshim.py)', 'int/isinstance shadowed in skoolkit, skoolkit.snapshot'],
        rule='one case per feasible path per item (RLE shape, header group x format x machine, poke form)',
        explanation='Bounded symbolic verification of the snapshot codecs: the real writer and reader run on symbolic data; identity and agreement with decoders written from the published formats are decided by z3.')
    for r in harness.pmap(work, items, args.jobs, init=init_worker, seed=args.seed, first=lambda i: i[0] == 'rle' and len(i[1]) >= 6):
        rep.add(r)
    if rep.paths < rep.items:
        rep.vacuity.append('some work items explored no path')
    return rep.finish(replay_in_subprocess=os.path.abspath(__file__))


if __name__ == '__main__':
    sys.exit(main())
