#!/venv/bin/python
"""C01: disassembly is lossless (block level).

For a corpus of control-file shapes (all block and sub-block types, sublength lists with base prefixes, '*' multipliers,
L loops, statement-size settings) over a window of symbolic memory, the real CtlParser and the real
snaskool.Disassembly build the entries; the check then does what skool2bin does with each statement - uses the
@bytes list if the statement carries one, otherwise assembles the operation with the real assembler - and z3 decides
that every address of every non-ignored block gets back exactly its original byte (statements are applied in file order,
as skool2bin does; a statement that cannot be assembled, or an address no statement produces, is a violation).
"""
import os
import sys
import tempfile

sys.path.insert(0, os.path.join(os.path.dirname(os.path.abspath(__file__)), '..', 'lib'))
import bootstrap  # noqa
import z3
import harness
import numerals
from symx import Stats, HarnessError, Inconclusive, SymInt, SymBool, bv, W, explore, sym_int, Path, rng

PROP = 'C01'
A = 30000


def init_worker():
    import skoolkit
    import skoolkit.z80 as z80
    import skoolkit.disassembler as dis
    import skoolkit.skoolutils as su
    import skoolkit.snaskool as ss
    import skoolkit.skool2bin as s2b
    import skoolkit.skoolparser as sp
    import skoolkit.ctlparser as cp
    import skoolkit.textutils as tu
    numerals.install(skoolkit, z80, dis, su, ss, s2b, sp, cp, tu, with_eval=True, with_chr=True)
    import shims
    shims.install_isinstance(z80, dis, skoolkit, su, ss, s2b, sp, cp, tu)
    cp.warn = ss.warn = lambda *a: None


def new_res():
    return {'obligations': 0, 'discharged': 0, 'violations': [], 'inconclusive': [], 'samples': [], 'nontrivial': 0}


def finish(res, st):
    res.update(paths=st.paths, queries=st.queries, solver_s=st.solver_s, realisations=st.realisations)
    return res


# code fragments: (bytes with None = symbolic operand)
CODE = {
    'ld':    [0x3E, None, 0x21, None, None, 0x36, None],                 # LD A,n / LD HL,nn / LD (HL),n
    'index': [0xDD, 0x36, None, None, 0xFD, 0x7E, None, 0xDD, 0x86, None],  # LD (IX+d),n / LD A,(IY+d) / ADD A,(IX+d)
    'jumps': [0x18, None, 0x10, None, 0xC3, None, None, 0xCD, None, None],  # JR / DJNZ / JP / CALL
    'var':   [0xDD, 0xCB, None, 0x40, 0xED, 0x4C, 0xED, 0x63, None, None, 0xDD, 0xCB, None, 0x07],  # variants (Opcodes=ALL)
    'pfx':   [0xDD, 0x00, 0xFD, 0xDD, 0x21, None, None, 0xED, 0x00, 0xCB, 0x37],
    'io':    [0xDB, None, 0xD3, None, 0xE6, None, 0xFE, None, 0x06, None],
}


def ctl_corpus(tier):
    """-> list of (name, n_bytes, ctl_text (with {a} and {b} = A+offset helpers), code key or None)"""
    out = []
    n = 6 if tier == 'quick' else 8
    for t, T in (('b', 'B'), ('t', 'T'), ('w', 'W'), ('s', 'S'), ('u', 'B'), ('g', 'W')):
        out.append(('%s plain' % t, n, '%s {0}\ni {%d}' % (t, n), None))
        out.append(('%s %s whole' % (t, T), n, '%s {0}\n%s {0},%d\ni {%d}' % (t, T, n, n), None))
        for k in (1, 2, 3, 4):
            if T == 'S' and n % k:
                continue      # a DEFS sub-block must be a whole number of statements (the property's well-formedness condition)
            if T == 'W' and k % 2:
                continue      # word statements have even lengths
            out.append(('%s %s,%d' % (t, T, k), n, '%s {0}\n%s {0},%d,%d\ni {%d}' % (t, T, n, k, n), None))
        if T == 'W':
            out.append(('%s mixed bases' % t, n, '%s {0}\n%s {0},%d,b2:c2,h2\ni {%d}' % (t, T, n, n), None))
            out.append(('%s multiplier' % t, n, '%s {0}\n%s {0},%d,2*2,m2\ni {%d}' % (t, T, n, n), None))
            out.append(('%s two sub-blocks' % t, n, '%s {0}\n%s {0},2,c2\n%s {2},%d,h2\ni {%d}' % (t, T, T, n - 2, n), None))
            out.append(('%s sublengths shorter than the block' % t, n, '%s {0}\n%s {0},%d,4,2\ni {%d}' % (t, T, n, n), None))
        elif T != 'S':
            out.append(('%s mixed bases' % t, n, '%s {0}\n%s {0},%d,b1:c2,d1,h2\ni {%d}' % (t, T, n, n), None))
            out.append(('%s multiplier' % t, n, '%s {0}\n%s {0},%d,1*2,m2,n1:c1\ni {%d}' % (t, T, n, n), None))
            out.append(('%s two sub-blocks' % t, n, '%s {0}\n%s {0},3,c3\n%s {3},%d,h2\ni {%d}' % (t, T, T, n - 3, n), None))
            out.append(('%s sublengths shorter than the block' % t, n, '%s {0}\n%s {0},%d,2,1\ni {%d}' % (t, T, n, n), None))
        else:
            out.append(('s with value base', n, 's {0}\nS {0},%d,%d:h\ni {%d}' % (n, n, n), None))
            out.append(('s split', n, 's {0}\nS {0},%d,h2,d%d\ni {%d}' % (n, n - 2, n), None))
    # a sub-block whose last statement is cut short by the sub-block end, followed directly by more statements
    out.append(('truncated B then B', 7, 'b {0}\nB {0},3,2\nB {3},4,3\ni {7}', None))
    out.append(('truncated B then entry', 7, 'b {0}\nB {0},5,2\nw {5}\nW {5},2\ni {7}', None))
    out.append(('truncated T then W', 7, 't {0}\nT {0},3,2\nW {3},4,4\ni {7}', None))
    out.append(('truncated W then B', 8, 'w {0}\nW {0},6,4\nB {6},2,1\ni {8}', None))
    out.append(('odd W block', 5, 'w {0}\nW {0},5\ni {5}', None))
    out.append(('loop', 6, 'b {0}\nB {0},2,1\nL {0},2,3\ni {6}', None))
    out.append(('entry loop', 6, 'b {0}\nB {0},3,1,2\nL {0},3,2,1\ni {6}', None))
    out.append(('mixed sub-blocks', 8, 'b {0}\nB {0},2\nT {2},2\nW {4},2\nS {6},2\ni {8}', None))
    out.append(('M directive', 6, 'b {0}\nM {0},6 spanning comment\nB {0},3\nW {3},2\nB {5},1\ni {6}', None))
    out.append(('ignored middle', 6, 'b {0}\nB {0},2\ni {2}\nb {4}\nB {4},2,b1\ni {6}', None))
    for key, code in CODE.items():
        if key in ('ld9', 'fill33', 'top', 'topjr', 'jumpsc'):
            continue
        n = len(code)
        out.append(('code %s' % key, n, 'c {0}\ni {%d}' % n, key))
        out.append(('code %s base h' % key, n, 'c {0}\nC {0},h%d\ni {%d}' % (n, n), key))
        if key != 'io':       # a port number is not a signed operand (see C02)
            out.append(('code %s base m' % key, n, 'c {0}\nC {0},m%d\ni {%d}' % (n, n), key))
        out.append(('code %s bases bd' % key, n, 'c {0}\nC {0},bd%d\ni {%d}' % (n, n), key))
    # S sub-blocks that spell out the fill value, one and several statements long (memory holds that value)
    out.append(('s explicit char value', 6, 's {0}\nS {0},6,2:c33\ni {6}', 'fill33'))
    out.append(('s explicit hex value', 6, 's {0}\nS {0},6,h3:h33\ni {6}', 'fill33'))
    out.append(('s explicit value whole', 6, 's {0}\nS {0},6,6:d33\ni {6}', 'fill33'))
    # code that ends at the top of memory (relative jumps whose targets reach 65536 and beyond)
    out.append(('code top of memory', 6, 'c {0}', 'top', 65530))
    out.append(('code top of memory base h', 6, 'c {0}\nC {0},h6', 'top', 65530))
    out.append(('code top of memory jr', 4, 'c {0}', 'topjr', 65532))
    out.append(('code then data', 9, 'c {0}\nC {0},2\nB {2},3,c3\nW {5},2\nT {7},2\ni {9}', 'ld9'))
    return out


CODE['ld9'] = [0x3E, None] + [None] * 7
CODE['fill33'] = [33] * 6
CODE['jumpsc'] = [0x18, 0x02, 0x10, 0xFC, 0xC3, (A + 2) % 256, (A + 2) // 256, 0xCD, 0x00, 0x80]     # JR $+4 / DJNZ $-2 / JP A+2 / CALL 32768
CODE['top'] = [0x3E, None, 0x18, None, 0x10, None]
CODE['topjr'] = [0x20, None, 0x18, None]


def fmt_ctl(text, base=A):
    import re
    return re.sub(r'\{(\d+)\}', lambda m: str(base + int(m.group(1))), text)


def corpus_entry(tier, ci):
    e = ctl_corpus(tier)[ci]
    return e if len(e) > 4 else e + (A,)


def build_snap(path, ctltext, codekey, n, A):
    snap = [0] * 65536
    code = CODE.get(codekey)
    # character-based statements fork ~10 ways per symbolic byte (printable? quote? backslash? inverted?): in shapes that
    # use them only two bytes are symbolic, the others are fixed to characters that exercise the escaping rules
    ct = '\n' + fmt_ctl(ctltext, A)
    textual = any(x in ct for x in ('\nT ', '\nt ', 'c1', 'c2', 'c3', ':c', ',c'))
    fill = ct.startswith('\ns ') or '\nS ' in ct
    FIXED = [65, 34, 200, 92, 0, 126, 220, 32, 94, 127, 96, 162, 59, 44]
    symk = {0, 2} if textual else set(range(n))
    if codekey == 'ld9':
        symk = {1, 2, 5}
    fillv = None
    for k in range(n):
        if code and code[k] is not None:
            snap[A + k] = code[k]
        elif fill and not textual:
            # DEFS statements describe runs: one symbolic fill value (set() over the data realises it: 256 cases)
            if fillv is None:
                fillv = sym_int('m0', 0, 255)
                # bound: the fill value ranges over the values that matter to formatting (it is realised by set())
                path.assume(z3.Or(*[fillv.e == v for v in (0, 1, 32, 34, 65, 92, 127, 128, 255)]))
            snap[A + k] = fillv
        elif k not in symk:
            snap[A + k] = FIXED[k % len(FIXED)]
        else:
            snap[A + k] = sym_int('m%d' % k, 0, 255)
    path.data['snapwin'] = snap[A:A + n]
    return snap


def check_ctl(item):
    _, ci, hexmode, lower, sizes, opcodes, tier = item
    name0, n, ctltext, codekey, A = corpus_entry(tier, ci)
    st = Stats()
    res = new_res()
    import skoolkit.ctlparser as cp
    import skoolkit.snaskool as ss
    import skoolkit.z80 as z80
    import skoolkit.skoolutils as su
    name = 'ctl[%s] %s%s sizes=%r opcodes=%r' % (name0, 'hex' if hexmode else 'dec', ' lower' if lower else '', sizes, opcodes)
    asm = z80.Assembler()
    d = tempfile.mkdtemp(prefix='skverif_c01_')
    ctlfile = os.path.join(d, 't.ctl')
    open(ctlfile, 'w').write(fmt_ctl(ctltext, A) + '\n')

    def fn(path):
        snap = build_snap(path, ctltext, codekey, n, A)
        parser = cp.CtlParser()
        parser.parse_ctls([ctlfile], A, min(A + n + 1, 65536))
        config = {'DefbSize': sizes[0], 'DefmSize': sizes[1], 'DefwSize': sizes[2], 'Opcodes': opcodes, 'Wrap': 0, 'HandleRST': 0, 'Title-b': '', 'Title-c': '', 'Title-g': '', 'Title-i': '',
                  'Title-s': '', 'Title-t': '', 'Title-u': '', 'Title-w': ''}
        dis = ss.Disassembly(snap, parser, config, hexmode, lower, final=False)
        got = {}
        problems = []
        for entry in dis.entries:
            if entry.ctl == 'i':
                continue
            expect = entry.address
            for ins in entry.instructions:
                if not ins.operation:
                    continue
                bdir = [x for x in getattr(ins, 'asm_directives', ()) if x.startswith('bytes=')]
                if bdir:
                    data = su.parse_asm_bytes_directive(bdir[0])
                else:
                    try:
                        data = asm._assemble(ins.operation, ins.address)
                    except (ValueError, KeyError, IndexError, TypeError) as e:
                        data = None
                if not data:
                    problems.append('cannot assemble %r' % numerals.skeleton(ins.operation))
                    data = ()
                for k, b in enumerate(data):
                    got[ins.address + k] = b          # skool2bin pokes statements in file order: a later statement wins
                expect = ins.address + len(ins.bytes)
        return snap, got, problems, [(e.ctl, e.address) for e in dis.entries], dis

    def covered(entries):
        """addresses of the window that belong to non-ignored entries"""
        out = []
        ents = [e for e in entries if A <= e[1] <= A + n]
        for (ctl, a), nxt in zip(ents, ents[1:] + [('i', A + n)]):
            if ctl != 'i':
                out.extend(range(a, min(nxt[1], A + n)))
        return out

    def on(p, out):
        res['obligations'] += 1
        if isinstance(out, tuple) and out[0] == 'exception':
            r, mod = p.check(model=True)
            mem = [mod.eval(bv(x), model_completion=True).as_long() if not isinstance(x, int) else x for x in p.data.get('snapwin', [0] * n)]
            res['violations'].append(dict(key='%s:exception' % name, text='%s with memory %r raises %r' % (name, mem, out[1]),
                                          case=dict(kind='ctl', ci=ci, hex=hexmode, lower=lower, sizes=sizes, opcodes=opcodes, tier=tier, mem=mem)))
            return
        snap, got, problems, entries, dis = out
        diffs = []
        for a in covered(entries):
            if a not in got:
                problems.append('address %d is not produced by any statement' % a)
            else:
                diffs.append(bv(got[a]) != bv(snap[a]))
        if problems or p.data.get('radix_confusion'):
            r, mod = p.check(model=True)
        else:
            r, mod, _w = p.check_any(diffs)
        if r == 'unknown':
            res['inconclusive'].append(name); return
        if r == 'sat':
            mem = [mod.eval(bv(snap[A + k]), model_completion=True).as_long() for k in range(n)]
            res['violations'].append(dict(key='%s:%s' % (name, (problems or ['bytes differ'])[0][:50]), text='%s with memory %r: %s' % (name, mem, '; '.join(problems[:3]) or 'reassembled bytes differ from the original'),
                                          case=dict(kind='ctl', ci=ci, hex=hexmode, lower=lower, sizes=sizes, opcodes=opcodes, tier=tier, mem=mem)))
            return
        res['discharged'] += 1
        res['nontrivial'] += 1
        if not res['samples']:
            ops = [i.operation for e in dis.entries for i in e.instructions if i.operation][:4]
            res['samples'].append({'item': name, 'ctl': fmt_ctl(ctltext, A).split('\n'), 'statements': ops, 'verdict': 'unsat'})

    try:
        explore(fn, stats=st, on_path=on, max_paths=30000)
    except Inconclusive as e:
        res['inconclusive'].append('%s: %s' % (name, e))
    finally:
        import shutil
        shutil.rmtree(d, ignore_errors=True)
    return finish(res, st)


def check_pipe(item):
    """('pipe', corpus index, hex, lower, sizes, tier): the textual route - the real SkoolWriter writes the skool file (numbers are
    numeral tokens), the real skool2bin BinWriter reads that text and assembles it: the image equals the memory at every
    address of a non-ignored block"""
    _, ci, hexmode, lower, sizes, tier = item
    name0, n, ctltext, codekey, A = corpus_entry(tier, ci)
    if codekey == 'jumps':
        codekey = 'jumpsc'        # the skool writer keys its referrer bookkeeping by jump target: concrete targets on this route
    st = Stats()
    res = new_res()
    import ctlpipe
    import asmpipe
    name = 'skool file -> skool2bin [%s] %s%s sizes=%r' % (name0, 'hex' if hexmode else 'dec', ' lower' if lower else '', sizes)
    cp_ = ctlpipe.Pipe()
    ap_ = asmpipe.Pipe()
    ctl_lines = fmt_ctl(ctltext, A).split('\n')
    tops = sorted((int(l.split()[1]), l[0]) for l in ctl_lines if l[:1].islower() and l[:1] in 'bcgistuw' and l[1:2] == ' ')
    cover = []
    for (a, c), nxt in zip(tops, tops[1:] + [(A + n, 'i')]):
        if c != 'i':
            cover.extend(range(a, min(nxt[0], A + n)))

    def fn(path):
        import symx
        snap = build_snap(path, ctltext, codekey, n, A)
        # skool2bin looks every numeric operand up in a dictionary of instruction addresses (to relocate it): a symbolic word
        # is hashed by identity there, i.e. taken not to be the address of an instruction that moved (nothing moves in these files
        # unless skool2bin itself misplaces a statement, which the comparison below catches)
        symx.HASH_BY_IDENTITY = True
        try:
            return run(snap)
        finally:
            symx.HASH_BY_IDENTITY = False

    def run(snap):
        lines = cp_.skool_from_ctl(snap, ctl_lines, A, min(A + n + 1, 65536), base=16 if hexmode else 10, case=1 if lower else 2, sizes=sizes)
        bw = ap_.skool2bin('\n'.join(lines) + '\n', 0, 0)
        return snap, bw, lines

    def on(p, out):
        res['obligations'] += 1
        memv = lambda mod: [mod.eval(bv(x), model_completion=True).as_long() if not isinstance(x, int) else x for x in p.data.get('snapwin', [0] * n)]
        if isinstance(out, tuple) and out[0] == 'exception':
            r, mod = p.check(model=True)
            res['violations'].append(dict(key='pipe [%s]:exception:%s' % (name0, type(out[1]).__name__), text='%s with memory %r raises %r' % (name, memv(mod), out[1]),
                                          case=dict(kind='pipe', ci=ci, hex=hexmode, lower=lower, sizes=sizes, tier=tier, mem=memv(mod))))
            return
        snap, bw, lines = out
        diffs, names = [], []
        for a in cover:
            diffs.append(bv(bw.snapshot[a]) != bv(snap[a])); names.append('address %d' % a)
        if p.data.get('radix_confusion'):
            diffs.append(z3.BoolVal(True)); names.append('a numeral is parsed in the wrong radix')
        r, mod, which = p.check_any(diffs, names)
        if r == 'unknown':
            res['inconclusive'].append(name); return
        if r == 'sat':
            res['violations'].append(dict(key='pipe [%s]:bytes differ' % name0, text='%s with memory %r: skool2bin does not reproduce %s' % (name, memv(mod), ', '.join(which[:4])),
                                          case=dict(kind='pipe', ci=ci, hex=hexmode, lower=lower, sizes=sizes, tier=tier, mem=memv(mod))))
            return
        res['discharged'] += 1
        res['nontrivial'] += 1
        if not res['samples']:
            res['samples'].append({'item': name, 'skool': [numerals.skeleton(x) for x in lines[:5]], 'verdict': 'unsat'})

    try:
        explore(fn, stats=st, on_path=on, max_paths=30000)
    except Inconclusive as e:
        res['inconclusive'].append('%s: %s' % (name, e))
    finally:
        cp_.close(); ap_.close()
    return finish(res, st)


def replay_pipe(case):
    import ctlpipe
    import asmpipe
    name0, n, ctltext, codekey, A = corpus_entry(case['tier'], case['ci'])
    cp_, ap_ = ctlpipe.Pipe(), asmpipe.Pipe()
    try:
        snap = [0] * 65536
        snap[A:A + n] = case['mem']
        ctl_lines = fmt_ctl(ctltext, A).split('\n')
        try:
            lines = cp_.skool_from_ctl(snap, ctl_lines, A, min(A + n + 1, 65536), base=16 if case['hex'] else 10, case=1 if case['lower'] else 2, sizes=tuple(case['sizes']))
            bw = ap_.skool2bin('\n'.join(lines) + '\n', 0, 0)
        except Exception as e:
            return True, 'raises %r' % e
        tops = sorted((int(l.split()[1]), l[0]) for l in ctl_lines if l[:1].islower() and l[:1] in 'bcgistuw' and l[1:2] == ' ')
        bad = []
        for (a, c), nxt in zip(tops, tops[1:] + [(A + n, 'i')]):
            if c != 'i':
                for x in range(a, min(nxt[0], A + n)):
                    if bw.snapshot[x] != snap[x]:
                        bad.append('address %d: original %d, skool2bin %d' % (x, snap[x], bw.snapshot[x]))
        return bool(bad), '; '.join(bad[:4]) or 'skool2bin reproduces every byte'
    finally:
        cp_.close(); ap_.close()


def work(item):
    return check_pipe(item) if item[0] == 'pipe' else check_ctl(item)


def replay(case):
    """concrete re-run through the real tools: sna2skool-style Disassembly + SkoolWriter text + skool2bin BinWriter"""
    if case.get('kind') == 'pipe':
        return replay_pipe(case)
    import io
    import skoolkit.ctlparser as cp
    import skoolkit.snaskool as ss
    import skoolkit.z80 as z80
    import skoolkit.skoolutils as su
    name0, n, ctltext, codekey, A = corpus_entry(case['tier'], case['ci'])
    d = tempfile.mkdtemp(prefix='skverif_c01_')
    try:
        ctlfile = os.path.join(d, 't.ctl')
        open(ctlfile, 'w').write(fmt_ctl(ctltext, A) + '\n')
        snap = [0] * 65536
        snap[A:A + n] = case['mem']
        parser = cp.CtlParser()
        parser.parse_ctls([ctlfile], A, min(A + n + 1, 65536))
        sizes = case['sizes']
        config = {'DefbSize': sizes[0], 'DefmSize': sizes[1], 'DefwSize': sizes[2], 'Opcodes': case['opcodes'], 'Wrap': 0, 'HandleRST': 0}
        for t in 'bcgistuw':
            config['Title-' + t] = ''
        try:
            dis = ss.Disassembly(snap, parser, config, case['hex'], case['lower'], final=False)
        except Exception as e:
            return True, 'Disassembly raises %r' % e
        asm = z80.Assembler()
        got = {}
        for entry in dis.entries:
            if entry.ctl == 'i':
                continue
            for ins in entry.instructions:
                if not ins.operation:
                    continue
                bdir = [x for x in getattr(ins, 'asm_directives', ()) if x.startswith('bytes=')]
                data = su.parse_asm_bytes_directive(bdir[0]) if bdir else asm.assemble(ins.operation, ins.address)
                for k, b in enumerate(data or ()):
                    got[ins.address + k] = b
        bad = []
        ents = [(e.ctl, e.address) for e in dis.entries]
        for (ctl, a), nxt in zip(ents, ents[1:] + [('i', A + n)]):
            if ctl != 'i':
                for x in range(a, min(nxt[1], A + n)):
                    if got.get(x) != snap[x]:
                        bad.append('address %d: original %d, reassembled %r' % (x, snap[x], got.get(x)))
        return bool(bad), '; '.join(bad[:4]) or 'every byte is reproduced'
    finally:
        import shutil
        shutil.rmtree(d, ignore_errors=True)


def main():
    args = harness.parse_args(PROP)
    if args.replay:
        ok, detail = replay(harness.load_case(args.replay))
        print(('REPRODUCED: ' if ok else 'not reproduced: ') + detail)
        return 1 if ok else 0
    corpus = ctl_corpus(args.tier)
    items = []
    size_sets = [(8, 65, 1), (2, 3, 2)] if args.tier == 'quick' else [(8, 65, 1), (2, 3, 2), (1, 1, 1), (3, 66, 4)]
    for ci in range(len(corpus)):
        for hexmode, lower in ((False, False), (True, True)) if args.tier == 'quick' else ((False, False), (True, False), (False, True), (True, True)):
            for sizes in size_sets:
                for opcodes in ('', 'ALL'):
                    if opcodes == 'ALL' and not corpus[ci][0].startswith('code'):
                        continue
                    items.append(('ctl', ci, hexmode, lower, sizes, opcodes, args.tier))
            if corpus_entry(args.tier, ci)[4] == A:
                # the textual route (SkoolWriter text -> skool2bin) for one size setting per base/case
                items.append(('pipe', ci, hexmode, lower, size_sets[1], args.tier))
    if args.only:
        items = [i for i in items if args.only in harness.item_name(i) or args.only in corpus[i[1]][0]]
    rep = harness.Report(
        PROP, args,
        functions=['skoolkit.ctlparser.CtlParser.parse_ctls / get_blocks (sub-block tiling, sublengths, loops)', 'skoolkit.snaskool.Disassembly._create_entries / _add_instructions (@bytes for variants)',
                   'skoolkit.disassembler.Disassembler.disassemble / defb_range / defm_range / defw_range / defs_range', 'skoolkit.skoolutils.parse_asm_bytes_directive', 'skoolkit.z80.Assembler._assemble',
                   'textual route: skoolkit.snaskool.SkoolWriter.write_skool -> skoolkit.skool2bin.BinWriter (_parse_skool, _parse_instruction, _add_instructions, _relocate)'],
        bounds={'window': '%d-14 bytes at %d, all symbolic except in character-based shapes (2 symbolic bytes, the rest fixed to characters that exercise the escaping rules)' % (6 if args.tier == 'quick' else 8, A), 'ctl shapes': '%d control files: every block type, sub-block types B C S T W, sublength lists with b c d h m n prefixes, * multipliers, L loops, M, ignored blocks; '
                'code fragments with pinned opcodes (incl. variants and prefixes) and symbolic operands' % len(corpus), 'settings': 'hex/decimal, case, DefbSize/DefmSize/DefwSize sets %r, Opcodes "" and ALL' % size_sets,
                'textual route': 'every shape at the main window, one size setting per base/case; jump operands concrete, symbolic words hashed by identity in skool2bin\'s address dictionary',
                'outside': 'line width, RST-argument handlers, Wrap at 65535 (C02 covers the instruction level), whole 64K images'},
        assumptions=['numeral tokens / symbolic characters as in C02'],
        stubs=['int, eval, chr, ord, isinstance shadowed in skoolkit, z80, disassembler, skoolutils, snaskool'],
        rule='one case per feasible path per (control file, settings)',
        explanation='Bounded symbolic verification at block level: real ctl parser + real Disassembly over symbolic memory; per statement the skool2bin rule (@bytes or assemble) is applied and z3 decides byte-for-byte equality and exact tiling.')
    for r in harness.pmap(work, items, args.jobs, init=init_worker, seed=args.seed):
        rep.add(r)
    if rep.paths < rep.items:
        rep.vacuity.append('some work items explored no path')
    return rep.finish(replay_in_subprocess=os.path.abspath(__file__))


if __name__ == '__main__':
    sys.exit(main())
