#!/venv/bin/python
"""C07: all instruction tables agree on length, mnemonic and timing of every opcode.

The opcode space is finite and is enumerated (as the property says); the operand bytes are symbolic, so every
comparison of operand *values* between two decoders, and every length/timing that could depend on an operand, is
decided by z3 rather than sampled.  Decoders: skool disassembler (wrap on/off, every additional-opcode setting),
trace disassembler, sna2ctl's decoder, the static timing table, and the Python simulator's closure (length = PC delta
or bytes fetched, timing = T delta on each path).  The C dispatch data are tied to the Python simulator by C06.
"""
import os
import re
import sys

sys.path.insert(0, os.path.join(os.path.dirname(os.path.abspath(__file__)), '..', 'lib'))
import bootstrap  # noqa
import z3
import harness
import z80ref
import simharness as sh
import simcheck
import numerals
from symx import Stats, HarnessError, Inconclusive, SymInt, SymBool, SymArray, bv, W, explore, sym_int, Path

PROP = 'C07'
ADDRESSES = (30000, 65532, 65533, 65534, 65535)
OPCODE_SETS = ('', 'ALL')


def init_worker():
    sh.patch_tables()
    import skoolkit.traceutils
    numerals.install()


def new_res():
    return {'obligations': 0, 'discharged': 0, 'violations': [], 'inconclusive': [], 'samples': [], 'nontrivial': 0}


def finish(res, st):
    res.update(paths=st.paths, queries=st.queries, solver_s=st.solver_s, realisations=st.realisations)
    return res


class Cfg:
    asm_hex = True
    asm_lower = False
    defb_size = 8
    defm_size = 66
    defw_size = 1
    handle_rst = False
    opcodes = ''
    wrap = False

    def __init__(self, **kw):
        from skoolkit.snaskool import Instruction
        self.imaker = Instruction
        self.__dict__.update(kw)


def jump_kind(slot):
    """None (PC always advances by the instruction length), 'cond' (has a fall-through path) or 'uncond'"""
    t, op = slot
    if t in ('DD', 'FD') and not z80ref.uses_index(op):
        return None                                # the prefix is a 1-byte step of its own
    if t in ('main', 'DD', 'FD'):
        x, y, z = op >> 6, (op >> 3) & 7, op & 7
        if x == 0 and z == 0 and y >= 2:
            return 'uncond' if y == 3 else 'cond'  # JR d / DJNZ, JR cc
        if x == 3 and z in (0, 2, 4):
            return 'cond'                          # RET cc, JP cc, CALL cc
        if x == 3 and (z == 7 or op in (0xC9, 0xE9, 0xC3, 0xCD)):
            return 'uncond'                        # RST, RET, JP (HL), JP, CALL
        if op == 0x76:
            return 'uncond'                        # HALT does not advance PC
        return None
    if t == 'ED':
        x, y, z = op >> 6, (op >> 3) & 7, op & 7
        if x == 1 and z == 5:
            return 'uncond'                        # RETN/RETI
        if x == 2 and z <= 3 and y >= 6:
            return 'cond'                          # repeating block instructions
    return None


def is_jump(slot):
    return jump_kind(slot) is not None


class LogMem(SymArray):
    """memory that logs constant read addresses"""

    def __getitem__(self, i):
        if isinstance(i, int):
            self.reads.append(i)
        elif isinstance(i, SymInt):
            c = z3.simplify(i.e)
            if z3.is_bv_value(c):
                self.reads.append(c.as_long())
        return super().__getitem__(i)


_SIM = {}


def sim_machine():
    if 'm' not in _SIM:
        import skoolkit.simulator as sm
        m = sh.Machine(sm.Simulator, '48K', None)
        # swap the memory for the logging variant (same z3 array, same closures: they captured the object)
        m.mem.__class__ = LogMem
        m.mem.reads = []
        _SIM['m'] = m
    return _SIM['m']


def make_snapshot(slot, a):
    """list-like 64K snapshot with the slot's opcode bytes at a (wrapping) and symbolic operand bytes after them"""
    snap = [0] * 65536
    pins = z80ref.slot_bytes(slot)
    ops = []
    for k in range(4):
        addr = (a + k) & 0xFFFF
        if k < len(pins) and pins[k] is not None:
            snap[addr] = pins[k]
        else:
            v = sym_int('b%d' % k, 0, 255)
            snap[addr] = v
            ops.append(v)
    return snap, pins, ops


def first_decode(snap, a):
    import skoolkit.opcodes as oc
    for addr, size, max_count, op_id, operation, rst_args in oc.decode(snap, a, a + 1):
        return size, operation
    return None, None


def check_slot(item):
    _, table, op, a = item
    slot = (table, op)
    st = Stats()
    res = new_res()
    name = '%s @%d' % (harness.item_name(slot), a)
    import skoolkit.disassembler as dis
    import skoolkit.traceutils as tu
    import skoolkit.z80 as z80

    def fn(path):
        snap, pins, ops = make_snapshot(slot, a)
        out = {'ops': ops}
        # skool disassembler, all settings
        for opcodes in OPCODE_SETS:
            for wrap in (False, True):
                d = dis.Disassembler(snap, Cfg(opcodes=opcodes, wrap=wrap))
                ins = d.disassemble(a, a + 1, 'n')[0]
                out['dis', opcodes, wrap] = ins
                if not ins.operation.upper().startswith('DEF'):
                    out['timing', opcodes, wrap] = z80.get_timing(ins)
        # does the skool disassembler know this opcode sequence at all (away from the 64K boundary)?
        if a != ADDRESSES[0]:
            snap0, _, _ = make_snapshot(slot, ADDRESSES[0])
            for opcodes in OPCODE_SETS:
                i0 = dis.Disassembler(snap0, Cfg(opcodes=opcodes, wrap=True)).disassemble(ADDRESSES[0], ADDRESSES[0] + 1, 'n')[0]
                out['known', opcodes] = not i0.operation.upper().startswith('DEF')
        # trace disassembler
        out['trace'] = tu.disassemble(snap, a, '$', '02X', '04X')
        # sna2ctl decoder
        out['decode'] = first_decode(snap, a)
        # simulator
        m = sim_machine()
        m.reset(path, ())
        path.assume(m.regs0[24] == a)
        for k in range(4):
            path.assume(z3.Select(m.mem0, z3.BitVecVal((a + k) & 0xFFFF, 16)) == z3.Extract(7, 0, bv(snap[(a + k) & 0xFFFF])))
        m.sim.registers[24] = a
        m.mem.reads = []
        m.sim.opcodes[pins[0]]()
        out['sim_pc'] = m.sim.registers[24]
        out['sim_dt'] = m.sim.registers[25] - SymInt(m.regs0[25], 0, sh.REG_RANGES[25])
        out['sim_reads'] = [r for r in m.mem.reads]
        return out

    def on(p, out):
        res['obligations'] += 1
        if isinstance(out, tuple) and out[0] == 'exception':
            e = out[1]
            r, mod = p.check(model=True)
            res['violations'].append(dict(key='%s:lookup:%s' % (harness.item_name(slot), type(e).__name__), text='%s: a table lookup fails: %r' % (name, e),
                                          case=dict(kind='slot', slot=list(slot), addr=a, ops=[])))
            return
        ops = out['ops']
        problems = []
        # ---- lengths ---------------------------------------------------------------------
        L = {}
        for opcodes in OPCODE_SETS:
            for wrap in (False, True):
                L['dis', opcodes, wrap] = len(out['dis', opcodes, wrap].bytes)
        L['trace'] = out['trace'][1]
        L['decode'] = out['decode'][0]
        dpc = z3.simplify(bv((out['sim_pc'] - a) % 65536))
        fetched = 1 + max([((r - a) % 65536) for r in out['sim_reads'] if (r - a) % 65536 < 4] + [0])
        if is_jump(slot):
            # a jump's length is the largest of: bytes fetched, and the PC delta on a fall-through path (decided after all paths)
            cands = [fetched]
            if jump_kind(slot) == 'cond' and z3.is_bv_value(dpc) and 1 <= dpc.as_long() <= 4:
                cands.append(dpc.as_long())
            state['jump_len'] = max(state.get('jump_len', 0), max(cands))
            state['trace_len'] = L['trace']
            L['sim'] = None
        elif z3.is_bv_value(dpc):
            L['sim'] = dpc.as_long()
            if L['sim'] != L['trace']:
                problems.append('length: simulator %s, trace disassembler %s' % (L['sim'], L['trace']))
        else:
            L['sim'] = None
            problems.append('simulator PC delta is not constant for a non-jump')
        crossing = a + L['trace'] > 65536
        for opcodes in OPCODE_SETS:
            if crossing and not out.get(('known', opcodes), True):
                continue      # a DEFB for an unrecognised sequence is data: it ends at 65535 by design
            if L['dis', opcodes, True] != L['trace']:
                problems.append('length: skool disassembler (Opcodes=%r, wrap) %d, trace disassembler %d' % (opcodes, L['dis', opcodes, True], L['trace']))
            want = 65536 - a if crossing else L['trace']
            if L['dis', opcodes, False] != want:
                problems.append('length: skool disassembler (Opcodes=%r, no wrap) %d, expected %d' % (opcodes, L['dis', opcodes, False], want))
        want = 65536 - a if crossing else L['trace']
        if L['decode'] != want:
            problems.append('length: sna2ctl decoder %s, others %d' % (L['decode'], want))
        # ---- mnemonics and operand values ---------------------------------------------------
        diffs, names = [], []
        t_op = out['trace'][0]
        for opcodes in OPCODE_SETS:
            ins = out['dis', opcodes, True]
            if ins.operation.upper().startswith('DEF'):
                continue
            s1, s2 = numerals.skeleton(ins.operation), numerals.skeleton(t_op)
            if s1 != s2:
                problems.append('mnemonic: skool disassembler %r, trace disassembler %r' % (s1, s2))
                continue
            v1, v2 = numerals.token_values(ins.operation), numerals.token_values(t_op)
            for (tk1, x1, r1), (tk2, x2, r2) in zip(v1, v2):
                diffs.append(bv(x1) != bv(x2)); names.append('operand value in %r' % s1)
        # ---- timing ---------------------------------------------------------------------------
        dt = z3.simplify(bv(out['sim_dt']))
        if not z3.is_bv_value(dt):
            problems.append('simulator T delta is not constant on a path')
        else:
            dtv = dt.as_long()
            p.data['dt'] = dtv
            for opcodes in OPCODE_SETS:
                for wrap in (False, True):
                    if ('timing', opcodes, wrap) in out:
                        tm = out['timing', opcodes, wrap]
                        allowed = tm if isinstance(tm, tuple) else (tm,)
                        if dtv not in allowed:
                            problems.append('timing: simulator takes %d T-states, timing table says %r' % (dtv, tm))
            state['dts'].add(dtv)
            for opcodes in OPCODE_SETS:
                for wrap in (False, True):
                    if ('timing', opcodes, wrap) in out:
                        state['tms'].add(out['timing', opcodes, wrap])
        if problems:
            r, mod = p.check(model=True)
            ov = [mod.eval(o.e, model_completion=True).as_long() for o in ops]
            for pr in dict.fromkeys(problems):
                res['violations'].append(dict(key='%s: %s' % (name, pr), text='%s: %s' % (name, pr),
                                              case=dict(kind='slot', slot=list(slot), addr=a, ops=ov)))
            return
        if diffs:
            r, mod = p.check(z3.Or(*diffs), model=True)
            if r == 'unknown':
                res['inconclusive'].append(name); return
            if r == 'sat':
                ov = [mod.eval(o.e, model_completion=True).as_long() for o in ops]
                res['violations'].append(dict(key='%s:operand' % harness.item_name(slot), text='%s: the two disassemblers show different operand values for operand bytes %r' % (name, ov),
                                              case=dict(kind='slot', slot=list(slot), addr=a, ops=ov)))
                return
        res['discharged'] += 1
        res['nontrivial'] += 1
        if not res['samples']:
            res['samples'].append({'slot': name, 'lengths': {str(k): v for k, v in L.items()}, 'trace': numerals.skeleton(t_op), 'sim_T': p.data.get('dt')})

    state = {'dts': set(), 'tms': set()}
    try:
        explore(fn, stats=st, on_path=on)
    except Inconclusive as e:
        res['inconclusive'].append('%s: %s' % (name, e))
    if 'jump_len' in state and not res['inconclusive']:
        res['obligations'] += 1
        if state['jump_len'] != state['trace_len']:
            res['violations'].append(dict(key='%s:jump-length' % harness.item_name(slot), text='%s: length: simulator %d, trace disassembler %d' % (name, state['jump_len'], state['trace_len']),
                                          case=dict(kind='slot', slot=list(slot), addr=a, ops=[])))
        else:
            res['discharged'] += 1
    # the timing table must not list a value the simulator never takes (only checked where all paths were seen: a = 30000)
    if a == ADDRESSES[0] and not res['violations'] and not res['inconclusive']:
        res['obligations'] += 1
        extra = set()
        for tm in state['tms']:
            for v in (tm if isinstance(tm, tuple) else (tm,)):
                if v not in state['dts']:
                    extra.add(v)
        if extra:
            res['violations'].append(dict(key='%s:timing-extra' % harness.item_name(slot), text='%s: timing table lists %r T-states which the simulator never takes (simulator: %r)' % (name, sorted(extra), sorted(state['dts'])),
                                          case=dict(kind='slot', slot=list(slot), addr=a, ops=[], timing_extra=sorted(extra))))
        else:
            res['discharged'] += 1
    return finish(res, st)


def work(item):
    return check_slot(item)


# ---------------------------------------------------------------------------
def replay(case):
    """concrete re-run on unpatched code: recompute every decoder's answer and report any disagreement"""
    import skoolkit.disassembler as dis
    import skoolkit.traceutils as tu
    import skoolkit.z80 as z80
    import skoolkit.simulator as sm
    slot, a = tuple(case['slot']), case['addr']
    pins = z80ref.slot_bytes(slot)
    ops = list(case.get('ops') or [])
    candidates = [ops] if ops else [[0, 0, 0], [1, 2, 3]]
    msgs = []
    for ov in candidates:
        ov = list(ov) + [0] * 4
        snap = [0] * 65536
        it = iter(ov)
        for k in range(4):
            snap[(a + k) & 0xFFFF] = pins[k] if k < len(pins) and pins[k] is not None else next(it)
        L = {}
        timing = {}
        try:
            for opcodes in OPCODE_SETS:
                for wrap in (False, True):
                    ins = dis.Disassembler(snap, Cfg(opcodes=opcodes, wrap=wrap)).disassemble(a, a + 1, 'n')[0]
                    L['dis', opcodes, wrap] = (len(ins.bytes), ins.operation)
                    if not ins.operation.upper().startswith('DEF'):
                        timing[opcodes, wrap] = z80.get_timing(ins)
            tr = tu.disassemble(snap, a, '$', '02X', '04X')
            dec = first_decode(snap, a)
        except Exception as e:
            return True, 'lookup fails: %r' % e
        dts = set()
        sim_len = None
        for f in (0x00, 0xFF, 0x45, 0xBA):
            for b in (0, 1, 2):
                memory = list(snap)
                sim = sm.Simulator(memory)
                sim.registers[24] = a
                sim.registers[1] = f
                sim.registers[2] = b
                sim.registers[3] = b
                t0 = sim.registers[25]
                sim.opcodes[memory[a]]()
                dts.add(sim.registers[25] - t0)
                if not is_jump(slot):
                    sim_len = (sim.registers[24] - a) % 65536
        crossing = a + tr[1] > 65536
        want = 65536 - a if crossing else tr[1]
        if sim_len is not None and sim_len != tr[1]:
            msgs.append('simulator length %d, trace disassembler %d' % (sim_len, tr[1]))
        for opcodes in OPCODE_SETS:
            if L['dis', opcodes, True][0] != tr[1]:
                msgs.append('skool disassembler (Opcodes=%r, wrap) length %d, trace %d' % (opcodes, L['dis', opcodes, True][0], tr[1]))
            if L['dis', opcodes, False][0] != want:
                msgs.append('skool disassembler (Opcodes=%r) length %d, expected %d' % (opcodes, L['dis', opcodes, False][0], want))
            o = L['dis', opcodes, True][1]
            if not o.upper().startswith('DEF') and o != tr[0]:
                msgs.append('skool disassembler %r, trace disassembler %r' % (o, tr[0]))
        if dec[0] != want:
            msgs.append('sna2ctl decoder length %s (%s), others %d' % (dec[0], dec[1], want))
        for key, tm in timing.items():
            allowed = set(tm if isinstance(tm, tuple) else (tm,))
            if not dts <= allowed:
                msgs.append('simulator T-states %r, timing table %r' % (sorted(dts), tm))
            if case.get('timing_extra') and not allowed <= dts and a == ADDRESSES[0]:
                msgs.append('timing table %r, simulator only %r' % (tm, sorted(dts)))
    return bool(msgs), '; '.join(dict.fromkeys(msgs)) or 'all decoders agree on this input'


def main():
    args = harness.parse_args(PROP)
    if args.replay:
        ok, detail = replay(harness.load_case(args.replay))
        print(('REPRODUCED: ' if ok else 'not reproduced: ') + detail)
        return 1 if ok else 0
    slots = z80ref.all_slots()
    addrs = ADDRESSES if args.tier == 'thorough' else (ADDRESSES[0], 65534, 65535)
    items = [('slot',) + s + (a,) for s in slots for a in addrs]
    if args.only:
        items = [i for i in items if args.only in harness.item_name(i)]
    rep = harness.Report(
        PROP, args,
        functions=['skoolkit.disassembler.Disassembler.disassemble (Opcodes "" and ALL, wrap on/off)', 'skoolkit.traceutils.disassemble', 'skoolkit.opcodes.decode',
                   'skoolkit.z80.get_timing', 'skoolkit.simulator.Simulator closures (PC delta, bytes fetched, T delta per path)'],
        bounds={'opcode space': 'all 1786 instruction slots enumerated (finite)', 'operand bytes': 'symbolic 0..255 each', 'addresses': list(addrs),
                'outside': 'RST-argument handlers (handle_rst), the C dispatch data (tied to the Python simulator by C06), asm_lower/decimal renderings of the skool disassembler (C02)'},
        assumptions=['the digit rendering of Python format() is abstracted by numeral tokens (lib/numerals.py); operand values are compared as terms'],
        stubs=['numeral tokens for formatted symbolic operands'],
        rule='one case per feasible path per (slot, address); enumeration over slots/addresses, operands symbolic',
        explanation='Enumeration of the finite opcode space with symbolic operands: lengths, mnemonics, operand values (z3 equality) and timings from five decoders are compared per slot.')
    for r in harness.pmap(work, items, args.jobs, init=init_worker, seed=args.seed):
        rep.add(r)
    rep.extra['exhaustive_over_slots'] = True
    if rep.paths < rep.items:
        rep.vacuity.append('some work items explored no path')
    return rep.finish(replay_in_subprocess=os.path.abspath(__file__))


if __name__ == '__main__':
    sys.exit(main())
