#!/venv/bin/python
"""C10: saving a snapshot mid-run and resuming from it is transparent (state carried through the file).

The state a later instruction can read - all 30 register slots, the T-state clock, interrupt state, halt flag, border, last
OUT to 0xFE, 0x7FFD, 0xFFFD, the AY registers, RAM - is made symbolic in a real simulator + tracer; the real
simutils.get_state -> snapshot.write_snapshot (Z80 and SZX writers) -> Snapshot.get (readers) -> simutils.from_snapshot
-> get_registers chain is executed; z3 decides, component by component, that the restored simulator state equals the
saved one (SZX incl. MEMPTR; Z80 except MEMPTR), for 48K and 128K.  Because every instruction is a function of this state
(C05/C06) and of nothing else, equality of the restored state at every instruction boundary gives the property for every
split point; the trace loop's only private variable (the next-interrupt time) is recomputed from T on entry (covered by
the run-loop item of C06 for Simulator.run).
"""
import os
import sys

sys.path.insert(0, os.path.join(os.path.dirname(os.path.abspath(__file__)), '..', 'lib'))
import bootstrap  # noqa
import z3
import harness
import numerals
import bytesshim
import simharness as sh
from symx import Stats, HarnessError, Inconclusive, SymInt, SymBool, bv, W, explore, sym_int, Path, rng

PROP = 'C10'


def init_worker():
    sh.patch_tables()
    import skoolkit
    import skoolkit.snapshot as snap
    import skoolkit.simutils as su
    numerals.install(skoolkit, snap, su)
    bytesshim.install(snap)
    import shims
    shims.install_isinstance(snap, skoolkit, su)
    # the writers are asked for the bytes instead of a file
    snap.Z80.write = lambda self, fname: CAPTURED.append(('z80', self.data()))
    snap.SZX.write = lambda self, fname: CAPTURED.append(('szx', self.data()))


CAPTURED = []


def new_res():
    return {'obligations': 0, 'discharged': 0, 'violations': [], 'inconclusive': [], 'samples': [], 'nontrivial': 0}


def finish(res, st):
    res.update(paths=st.paths, queries=st.queries, solver_s=st.solver_s, realisations=st.realisations)
    return res


class FakeTracer:
    pass


SYMCELLS = (0, 0x3FFF, 0xBFFF)      # offsets into 48K RAM made symbolic (each symbolic cell multiplies the RLE coder's paths)
SYMCELLS_T = (0, 1, 0x3FFF, 0x4000, 0xBFFE, 0xBFFF)       # thorough: both ends of every 16K page, neighbouring cells
BANKCELLS = {0: (0,), 5: (0x3FFF,), 7: (0x3FFF,)}
BANKCELLS_T = BANKCELLS          # more symbolic cells in the banks did not finish (each multiplies the paths of the RLE coder eightfold)


def check_restore(item):
    _, fmt, machine = item[:3]
    deep = len(item) > 3 and item[3] == 'thorough'
    st = Stats()
    res = new_res()
    import skoolkit.snapshot as snap
    import skoolkit.simutils as su
    import skoolkit.simulator as sm
    import skoolkit.pagingtracer as pt
    name = 'save/restore through .%s, %s' % (fmt, machine)
    M = sh.MACHINES['48K' if machine == '48K' else '128K']

    def fn(path):
        del CAPTURED[:]
        regs = [sym_int('r_' + n, 0, hi if i != 25 else M['frame'] - 1) for i, (n, hi) in enumerate(zip(sh.REG_NAMES, sh.REG_RANGES))]
        path.assume(regs[13].e == 0)
        regs[13] = 0
        sim = sm.Simulator.__new__(sm.Simulator)
        sim.registers = regs
        cells = {}
        if machine == '48K':
            memory = [0] * 65536
            for k, off in enumerate(SYMCELLS_T if deep else SYMCELLS):
                v = sym_int('m%d' % k, 0, 255)
                memory[0x4000 + off] = v
                cells[0x4000 + off] = v
            sim.memory = memory
        else:
            banks = [[0] * 0x4000 for _ in range(8)]
            o7 = sym_int('o7ffd', 0, 255)
            for b, offs in sorted((BANKCELLS_T if deep else BANKCELLS).items()):
                for k, off in enumerate(offs):
                    v = sym_int('m%d_%d' % (b, k), 0, 255)
                    banks[b][off] = v
                    cells[(b, off)] = v
            mem = pt.Memory.__new__(pt.Memory)
            mem.banks = tuple(banks)
            mem.roms = ([0] * 0x4000, [0] * 0x4000)
            mem.memory = [mem.roms[0], banks[5], banks[2], banks[0]]
            mem.o7ffd = o7
            mem.machine = machine
            sim.memory = mem
        tr = FakeTracer()
        tr.border = sym_int('border', 0, 7)
        tr.outfe = sym_int('outfe', 0, 255)
        tr.outfffd = sym_int('outfffd', 0, 255)
        tr.ay = [sym_int('ay%d' % i, 0, 255) for i in range(16)]
        sim.tracer = tr
        ram, registers, state, mach = su.get_state(sim)
        snap.write_snapshot('x.' + fmt, ram, registers, state, mach)
        data = CAPTURED[-1][1]
        back = snap.Snapshot.get(data, fmt)
        sim2 = su.from_snapshot(sm.Simulator, back, rom_file=None) if False else None
        # from_snapshot reads the ROM file and builds a simulator: the state transfer is get_registers(...) over these values
        s_registers = {'A': back.a, 'F': back.f, 'BC': back.bc, 'DE': back.de, 'HL': back.hl, 'IX': back.ix, 'IY': back.iy, 'SP': back.sp, 'I': back.i, 'R': back.r,
                       '^A': back.a2, '^F': back.f2, '^BC': back.bc2, '^DE': back.de2, '^HL': back.hl2, 'PC': back.pc, 'MEMPTR': back.memptr}
        s_state = {'im': back.im, 'iff': back.iff1, 'tstates': back.tstates}
        regs2 = su.get_registers(s_registers, s_state, False)
        return regs, regs2, cells, back, tr, (o7 if machine != '48K' else None)

    def on(p, out):
        res['obligations'] += 1
        if isinstance(out, tuple) and out[0] == 'exception':
            res['violations'].append(dict(key='%s:exception' % name, text='%s raises %r' % (name, out[1]), case=dict(kind='restore', fmt=fmt, machine=machine)))
            return
        regs, regs2, cells, back, tr, o7 = out
        diffs, names = [], []
        for i in range(30):
            if i == 29 and fmt == 'z80':
                continue       # the Z80 format has no MEMPTR field (stated in the property)
            diffs.append(bv(regs2[i]) != bv(regs[i])); names.append('register %s' % sh.REG_NAMES[i])
        ram = back.ram(-1) if machine != '48K' else back.ram()
        for key, v in cells.items():
            if machine == '48K':
                got = ram[key - 0x4000]
            else:
                got = ram[key[0] * 0x4000 + key[1]]
            diffs.append(bv(got) != bv(v)); names.append('RAM cell %r' % (key,))
        diffs.append(bv(back.border) != bv(tr.border)); names.append('border')
        if fmt == 'szx':
            diffs.append(bv(back.outfe) != bv(tr.outfe)); names.append('last OUT to 0xFE')
        if machine != '48K':
            diffs.append(bv(back.out7ffd) != bv(o7)); names.append('0x7FFD')
            diffs.append(bv(back.outfffd) != bv(tr.outfffd)); names.append('0xFFFD')
            for i in range(16):
                diffs.append(bv(back.ay[i]) != bv(tr.ay[i])); names.append('AY register %d' % i)
            if back.machine != machine:
                diffs.append(z3.BoolVal(True)); names.append('machine %r restored as %r' % (machine, back.machine))
        if p.data.get('radix_confusion'):
            diffs.append(z3.BoolVal(True)); names.append('numeral parsed in the wrong radix')
        # the HALT flag is its own obligation (it is a recorded finding); everything else is the other
        res['obligations'] += 1
        ok = True
        for part in (lambda n: n != 'register HALT', lambda n: n == 'register HALT'):
            sel = [(d, n) for d, n in zip(diffs, names) if part(n)]
            r, mod, which = p.check_any([d for d, n in sel], [n for d, n in sel])
            if r == 'unknown':
                res['inconclusive'].append(name); return
            if r == 'sat':
                rv = [mod.eval(bv(x), model_completion=True).as_long() for x in regs]
                ev = lambda x: mod.eval(bv(x), model_completion=True).as_long()
                trv = dict(border=ev(tr.border), outfe=ev(tr.outfe), outfffd=ev(tr.outfffd), ay=[ev(a) for a in tr.ay], o7ffd=ev(o7) if o7 is not None else 0)
                for w_ in dict.fromkeys(which):
                    res['violations'].append(dict(key='%s:%s' % (name, w_), text='%s: %s is not restored (registers %r, hardware %r)' % (name, w_, rv, trv), case=dict(kind='restore', fmt=fmt, machine=machine, regs=rv, what=w_, hw=trv)))
                ok = False
            else:
                res['discharged'] += 1
        if p.failed_obligations():
            res['violations'].append(dict(key='%s:side' % name, text='%s: a byte/index side obligation can fail' % name, case=dict(kind='restore', fmt=fmt, machine=machine)))
            return
        if not ok:
            return
        if not res['samples']:
            res['samples'].append({'item': name, 'components': len(diffs), 'verdict': 'unsat'})

    try:
        explore(fn, stats=st, on_path=on)
    except Inconclusive as e:
        res['inconclusive'].append('%s: %s' % (name, e))
    return finish(res, st)


# ---------------------------------------------------------------------------
MINI_ISA = 'NOP (00), EI (FB), DI (F3), JP nn (C3)'


def mini_step(path, regs, mem_arr):
    """effect of the instruction at PC when it is one of NOP / EI / DI / JP nn, as terms (no forking) -> (pc', T', iff', r')"""
    pc16 = z3.Extract(15, 0, regs[24])
    op = z3.Select(mem_arr, pc16)
    path.assume(z3.Or(op == 0x00, op == 0xFB, op == 0xF3, op == 0xC3))
    target = z3.ZeroExt(W - 8, z3.Select(mem_arr, pc16 + 1)) + 256 * z3.ZeroExt(W - 8, z3.Select(mem_arr, pc16 + 2))
    seq = z3.ZeroExt(W - 16, pc16 + 1)
    pc2 = z3.If(op == 0xC3, target, seq)
    t2 = regs[25] + z3.If(op == 0xC3, z3.BitVecVal(10, W), z3.BitVecVal(4, W))
    iff2 = z3.If(op == 0xFB, z3.BitVecVal(1, W), z3.If(op == 0xF3, z3.BitVecVal(0, W), regs[26]))
    r = regs[15]
    return pc2, t2, iff2, (r & 0x80) | ((r + 1) & 0x7F)


def check_resume(item):
    """('resume', machine): the Python loop of trace.py (Tracer.run) run for two instructions in one go, against one instruction,
    a stop, and a fresh Tracer.run for the second instruction from the state the first left (what a save/restore hands over):
    same registers and memory, i.e. the interrupt schedule is a function of the saved state only.  The instruction handlers are
    replaced by a four-instruction set with exact effects (as in the run-loop item of C06), so the clock is fully symbolic."""
    _, machine = item
    import skoolkit.trace as tr
    import skoolkit.simulator as sm
    st = Stats()
    res = new_res()
    name = 'trace.py loop resumed after one instruction, %s' % machine
    M = sh.Machine(sm.Simulator, machine, None)
    fd = M.sim.frame_duration
    state = {}

    def fn(path):
        M.reset(path)
        path.assume(z3.ULT(M.regs0[25], 2 * fd))
        M.sim.registers[25] = SymInt(M.regs0[25], 0, 2 * fd - 1)
        regs = M.sim.registers
        regs0 = list(regs)
        mem0 = M.mem.arr

        def py_step():
            pc2, t2, iff2, r2 = mini_step(path, [bv(x) for x in regs], M.mem.arr)
            regs[24] = SymInt(z3.simplify(pc2), 0, 65535)
            regs[25] = SymInt(z3.simplify(t2), 0, 2 * fd + 100)
            regs[26] = SymInt(z3.simplify(iff2), 0, 1)
            regs[15] = SymInt(z3.simplify(r2), 0, 255)

        class Steps(list):
            def __getitem__(self, k):
                return py_step
        real_opcodes = M.sim.opcodes
        M.sim.opcodes = Steps()
        real_print = tr.print if hasattr(tr, 'print') else None
        tr.print = lambda *a, **k: None
        try:
            def run(n):
                t = tr.Tracer.__new__(tr.Tracer)
                t.simulator = M.sim
                t.keyboard = None
                t.border = 7
                t.run(regs[24], 70000, n, 0, True, None, None, None, None, '', '02X', '04X')
            run(2)
            a_regs, a_mem = M.post_regs(), M.mem.arr
            regs[:] = regs0
            M.mem.arr = mem0
            run(1)
            run(1)
            b_regs, b_mem = M.post_regs(), M.mem.arr
        finally:
            M.sim.opcodes = real_opcodes
            if real_print is None:
                del tr.print
            else:
                tr.print = real_print
        return a_regs, a_mem, b_regs, b_mem

    def on(p, out):
        res['obligations'] += 1
        if isinstance(out, tuple) and out[0] == 'exception':
            res['violations'].append(dict(key='%s:exception' % name, text='%s raises %r' % (name, out[1]), case=dict(kind='resume', machine=machine)))
            return
        a_regs, a_mem, b_regs, b_mem = out
        diffs = [a_regs[i] != b_regs[i] for i in range(29)]
        names = ['register %s' % n for n in sh.REG_NAMES[:29]]
        k = z3.BitVec('k_addr', 16)
        diffs.append(z3.Select(a_mem, k) != z3.Select(b_mem, k)); names.append('memory')
        r, mod, which = p.check_any(diffs, names)
        if r == 'unknown':
            res['inconclusive'].append(name); return
        if r == 'sat':
            import simcheck
            rv, mem, _ = simcheck.model_state(mod, M)
            res['violations'].append(dict(key='%s:%s' % (name, which[0]), text='%s: %s differ (T=%d, PC=%d, IFF=%d)' % (name, ', '.join(which[:4]), rv[25], rv[24], rv[26]), case=dict(kind='resume', machine=machine, regs=rv, mem=mem)))
            return
        res['discharged'] += 1
        res['nontrivial'] += 1
        if not res['samples']:
            res['samples'].append({'item': name, 'instruction_set': MINI_ISA, 'verdict': 'unsat'})

    try:
        explore(fn, stats=st, on_path=on, max_paths=3000)
    except Inconclusive as e:
        res['inconclusive'].append('%s: %s' % (name, e))
    return finish(res, st)


def replay_resume(case):
    """concrete: the real Simulator and the real Tracer.run, two instructions in one go against 1 + 1"""
    import contextlib
    import io
    import simcheck
    import skoolkit.trace as tr
    import skoolkit.simulator as sm
    mem, default = simcheck.mem_from_case(case['mem'])
    M = sh.MACHINES[case['machine']]
    outs = []
    for split in (False, True):
        memory = simcheck.mem_list(mem, default)
        sim = sm.Simulator(memory, config={'frame_duration': M['frame'], 'int_active': M['int_active']})
        sim.registers[:] = list(case['regs'])

        def run(n):
            t = tr.Tracer.__new__(tr.Tracer)
            t.simulator = sim
            t.keyboard = None
            t.border = 7
            with contextlib.redirect_stdout(io.StringIO()):
                t.run(sim.registers[24], 70000, n, 0, True, None, None, None, None, '', '02X', '04X')
        if split:
            run(1); run(1)
        else:
            run(2)
        outs.append((list(sim.registers)[:29], memory))
    bad = ['%s: %d in one go, %d resumed' % (sh.REG_NAMES[i], outs[0][0][i], outs[1][0][i]) for i in range(29) if outs[0][0][i] != outs[1][0][i]]
    if outs[0][1] != outs[1][1]:
        bad.append('memory differs')
    return bool(bad), '; '.join(bad[:4]) or 'resumed run equals the uninterrupted one'


def work(item):
    return check_resume(item) if item[0] == 'resume' else check_restore(item)


def replay(case):
    """concrete: simulator state -> get_state -> write_snapshot (real file) -> Snapshot.get -> from_snapshot"""
    if case.get('kind') == 'resume':
        return replay_resume(case)
    import tempfile
    import skoolkit.snapshot as snap
    import skoolkit.simutils as su
    import skoolkit.simulator as sm
    import skoolkit.pagingtracer as pt
    if 'regs' not in case:
        return False, 'no input'
    fmt, machine = case['fmt'], case['machine']
    regs = list(case['regs'])
    hw = case.get('hw') or dict(border=3, outfe=0x18, outfffd=5, ay=list(range(16)), o7ffd=0)
    if machine == '48K':
        memory = [0] * 65536
    else:
        memory = pt.Memory(out7ffd=hw['o7ffd'], machine=machine)
    sim = sm.Simulator(memory)
    sim.registers[:] = regs
    tr = FakeTracer()
    tr.border, tr.outfe, tr.outfffd, tr.ay = hw['border'], hw['outfe'], hw['outfffd'], list(hw['ay'])
    sim.tracer = tr
    d = tempfile.mkdtemp(prefix='skverif_c10_')
    try:
        f = os.path.join(d, 'x.' + fmt)
        ram, registers, state, mach = su.get_state(sim)
        snap.write_snapshot(f, ram, registers, state, mach)
        back = snap.Snapshot.get(f)
        sim2 = su.from_snapshot(sm.Simulator, back)
        bad = []
        for i in range(30):
            if i == 29 and fmt == 'z80':
                continue
            if sim2.registers[i] != regs[i]:
                bad.append('%s saved %d restored %d' % (sh.REG_NAMES[i], regs[i], sim2.registers[i]))
        if back.border != tr.border:
            bad.append('border')
        if fmt == 'szx' and back.outfe != tr.outfe:
            bad.append('last OUT to 0xFE saved %d restored %d' % (tr.outfe, back.outfe))
        if machine != '48K' and back.out7ffd != hw['o7ffd']:
            bad.append('0x7FFD')
        if machine != '48K' and (list(back.ay) != tr.ay or back.outfffd != tr.outfffd):
            bad.append('AY state')
        return bool(bad), '; '.join(bad) or 'state restored exactly'
    finally:
        import shutil
        shutil.rmtree(d, ignore_errors=True)


def main():
    args = harness.parse_args(PROP)
    if args.replay:
        ok, detail = replay(harness.load_case(args.replay))
        print(('REPRODUCED: ' if ok else 'not reproduced: ') + detail)
        return 1 if ok else 0
    items = [('restore', fmt, machine, args.tier) for fmt in ('z80', 'szx') for machine in ('48K', '128K', '+2')]
    items += [('resume', '48K')]
    if args.only:
        items = [i for i in items if args.only in harness.item_name(i)]
    rep = harness.Report(
        PROP, args,
        functions=['skoolkit.simutils.get_state / get_registers (as used by from_snapshot)', 'skoolkit.snapshot.write_snapshot, Z80 / SZX writers and readers, Memory.ram', 'skoolkit.snapshot.Snapshot.get'],
        bounds={'state': 'all 30 register slots (T over one frame), border, FE, 7FFD, FFFD, 16 AY registers symbolic; %d RAM cells symbolic (48K) / %d cells in %d banks (128K), the rest zero' % (len(SYMCELLS_T if args.tier == 'thorough' else SYMCELLS), sum(len(v) for v in (BANKCELLS_T if args.tier == 'thorough' else BANKCELLS).values()), len(BANKCELLS_T if args.tier == 'thorough' else BANKCELLS)),
                'outside': 'the instruction-level determinism this rests on (C05/C06), trace.run option handling, the trace loop itself (its next-interrupt bookkeeping is recomputed from T on entry), SNA, the C simulator object construction'},
        assumptions=['numeral tokens abstract format()/int(); zlib is an invertible stub'],
        stubs=['Z80.write / SZX.write capture data() instead of writing a file', 'tracer object with border, outfe, outfffd, ay attributes', 'bytes/bytearray/zlib/int/isinstance shims in snapshot, simutils, skoolkit'],
        rule='one case per feasible path per (format, machine)',
        explanation='The save/restore chain is executed on a fully symbolic machine state; z3 decides component-wise equality of the restored state.')
    for r in harness.pmap(work, items, args.jobs, init=init_worker, seed=args.seed):
        rep.add(r)
    if rep.paths < rep.items:
        rep.vacuity.append('some work items explored no path')
    return rep.finish(replay_in_subprocess=os.path.abspath(__file__))


if __name__ == '__main__':
    sys.exit(main())
