#!/venv/bin/python
"""C19: contention simulation only ever adds the delays the ULA would impose.

Decomposition (each part decided by z3 over all register values, bus addresses and frame positions):
 pattern  per dispatch slot: the real CMIOSimulator closure and the real Simulator closure are run from one symbolic
          state; the (address, T-states) pattern the CMIO closure hands to contend() is captured and shown equal, cycle
          by cycle (length and contention class of the address), to the documented machine cycles of lib/z80ref.cycles;
          all effects other than T and MEMPTR equal the plain simulator's; T_cmio = T_plain + the delay contend returned;
          when the closure skips contend (outside t0 < t < t1) the reference delay is shown to be 0.
 fold     the real contend_48k/contend_128k (loop over a symbolic pattern, symbolic start t) equals the reference fold of
          the 6,5,4,3,2,1,0,0 wait pattern, is >= 0, and is 0 when no address is contended.
 io       the real io_contention_48k/128k produce the four documented I/O patterns for every port.
 delays   DELAYS_48K/DELAYS_128K equal the closed form entry by entry (finite, exhaustive, concrete).
 semantic (thorough) the real closure with the real contend, end to end, vs the reference fold of the documented cycles.
"""
import os
import sys

sys.path.insert(0, os.path.join(os.path.dirname(os.path.abspath(__file__)), '..', 'lib'))
import bootstrap  # noqa
import z3
import harness
import z80ref
import simharness as sh
import simcheck
from symx import Stats, HarnessError, Inconclusive, SymInt, SymBool, SymArray, bv, W, explore, sym_int, Path, rng

PROP = 'C19'


def init_worker():
    sh.patch_tables()
    sh.patch_delays()


def new_res():
    return {'obligations': 0, 'discharged': 0, 'violations': [], 'inconclusive': [], 'samples': [], 'nontrivial': 0}


def finish(res, st):
    res.update(paths=st.paths, queries=st.queries, solver_s=st.solver_s, realisations=st.realisations)
    return res


class Flat128(SymArray):
    """stand-in for pagingtracer.Memory as seen by the CPU: a flat 64K view (C08 shows Memory get/set is exactly that)
    whose len() is 0x20000 and which carries the last 0x7FFD value"""

    def __len__(self):
        return 0x20000


_MACH = {}


def machines(mach, tracer, record):
    key = (mach, tracer, record)
    if key in _MACH:
        return _MACH[key]
    import skoolkit.simulator as sm
    import skoolkit.cmiosimulator as cm

    class Rec(cm.CMIOSimulator):
        captured = None

        def _rec(self, t, timings):
            self.captured.append((t, tuple(timings)))
            return sym_int('delay%d' % len(self.captured), 0, 6 * len(timings))

        def contend_48k(self, t, timings):
            return self._rec(t, timings)

        def contend_128k(self, t, timings):
            return self._rec(t, timings)

    cls = Rec if record else cm.CMIOSimulator
    mem = None
    if mach == '128K':
        mem = Flat128('mem', 65536)
        mem.length = 65536
        mem.o7ffd = 0
    mc = sh.Machine(cls, mach, sh.Tracer() if tracer else None, mem128=mem)
    mp = sh.Machine(sm.Simulator, '48K', sh.Tracer() if tracer else None)
    mp.sim.frame_duration = mc.sim.frame_duration
    mp.sim.int_active = mc.sim.int_active
    _MACH[key] = (mc, mp)
    return mc, mp


def both(mc, mp, path, pins):
    """same symbolic pre-state in both machines"""
    mc.reset(path, pins)
    mp.reset(path, ())
    if mc.machine == '128K':
        mc.mem.o7ffd = sym_int('o7ffd', 0, 255)
    if hasattr(mc.sim, 'captured') or True:
        mc.sim.captured = []


def decide(p, cond):
    """truth value of z3 Bool `cond` on path p if the path condition decides it, else None"""
    if cond is None:
        return True
    c = z3.simplify(cond)
    if z3.is_true(c):
        return True
    if z3.is_false(c):
        return False
    a = p.check(c)
    b = p.check(z3.Not(c))
    if a == 'unknown' or b == 'unknown':
        raise Inconclusive('solver unknown while deciding a cycle condition')
    if a == 'sat' and b == 'unsat':
        return True
    if a == 'unsat' and b == 'sat':
        return False
    return None


def sim_contended(mach, a, odd):
    """contention class of the address value the real code passes (as the real contend would classify it)"""
    a = bv(a)
    c = z3.And(a >= 0x4000, a < 0x8000)
    if mach == '128K':
        c = z3.Or(c, z3.And(odd, a >= 0xC000))
    return c


def ref_patterns(p, mach, slot, regs0, mem0, odd):
    """documented cycles on this path as alternatives [(extra constraints, [(contended Bool term, n)])]: where the path
    condition does not decide a branch of the documented cycle list (taken/not taken, I/O port class) the harness splits cases"""
    alts = [([], [])]
    for c in z80ref.cycles(slot, regs0, mem0):
        new = []
        for extra, pat in alts:
            with p.assuming(*extra):
                take = decide(p, c.cond)
            for tk in ((True, False) if take is None else (take,)):
                ex = extra + ([] if take is not None else [c.cond if tk else z3.Not(c.cond)])
                if not tk:
                    new.append((ex, pat))
                    continue
                if c.io:
                    hic, lowc = z80ref.contended(mach, c.addr, odd), z3.Extract(0, 0, c.addr) == 1
                    with p.assuming(*ex):
                        hi, low = decide(p, hic), decide(p, lowc)
                    for h in ((True, False) if hi is None else (hi,)):
                        for lw in ((True, False) if low is None else (low,)):
                            ex2 = ex + ([] if hi is not None else [hic if h else z3.Not(hic)]) + ([] if low is not None else [lowc if lw else z3.Not(lowc)])
                            with p.assuming(*ex2):
                                if p.check() != 'sat':
                                    continue
                            new.append((ex2, pat + [(z3.BoolVal(k), n) for k, n in z80ref.io_cycles(h, lw)]))
                else:
                    new.append((ex, pat + [(z80ref.contended(mach, c.addr, odd), c.n)]))
        alts = new
    return alts


def ref_pattern(p, mach, slot, regs0, mem0, odd):
    """the single documented pattern if the path decides every condition, else None"""
    alts = ref_patterns(p, mach, slot, regs0, mem0, odd)
    if len(alts) == 1 and not alts[0][0]:
        return alts[0][1]
    return None


def ref_fold(mach, tm, pattern):
    """reference delay: fold of the wait pattern over [(contended Bool, n)] starting at frame position tm (SymInt)"""
    t = tm
    delay = 0
    for c, n in pattern:
        d = SymInt(z3.If(c, sh.delay_term(mach, t), z3.BitVecVal(0, W)), 0, 6)
        delay = delay + d
        t = t + d + n
    return delay


def check_pattern(item):
    _, mach, tracer, table, op = item
    slot = (table, op)
    mc, mp = machines(mach, tracer, True)
    st = Stats()
    res = new_res()
    name = 'CMIOSimulator %s %s%s' % (mach, harness.item_name(slot), ' tracer' if tracer else '')
    pins = z80ref.slot_bytes(slot)
    M = sh.MACHINES[mach]
    bit_hl = table == 'CB' and (op >> 6) == 1 and (op & 7) == 6
    state = {'fallback': False, 'neff': 0}

    def fn(path):
        both(mc, mp, path, pins)
        mc.sim.opcodes[pins[0]]()
        mp.sim.opcodes[pins[0]]()

    def case(mod):
        regs, mem, inputs = simcheck.model_state(mod, mc)
        o7 = mod.eval(mc.mem.o7ffd.e, model_completion=True).as_long() if mach == '128K' else 0
        return dict(kind='step', machine=mach, tracer=tracer, slot=list(slot), regs=regs, mem=mem, inputs=inputs, o7ffd=o7)

    def on(p, out):
        res['obligations'] += 1
        if out is not None:
            r, mod = p.check(model=True)
            res['violations'].append(dict(key=name + ':exception', text='%s raises %r' % (name, out[1]), case=case(mod)))
            return
        pc_, pp_ = mc.post_regs(), mp.post_regs()
        diffs, names = [], []
        for i in range(30):
            if i in (25, 29):
                continue
            if i == 1 and bit_hl:
                diffs.append(((pc_[1] ^ pp_[1]) & 0xD7) != 0)
            else:
                diffs.append(pc_[i] != pp_[i])
            names.append(sh.REG_NAMES[i])
        k = z3.BitVec('k_addr', 16)
        diffs.append(z3.Select(mc.mem.arr, k) != z3.Select(mp.mem.arr, k)); names.append('memory')
        if tracer:
            ec, ep = mc.tracer.events, mp.tracer.events
            if len(ec) != len(ep) or any(a[0] != b[0] for a, b in zip(ec, ep)):
                diffs.append(z3.BoolVal(True)); names.append('port event sequence')
            else:
                for a, b in zip(ec, ep):
                    for x, y in zip(a[1:3], b[1:3]):      # (port, value); the T-state offset argument legitimately includes the delay
                        diffs.append(bv(x) != bv(y)); names.append('port event')
            for a, b in zip(mc.tracer.inputs, mp.tracer.inputs):
                p.assume(a.e == b.e)      # the same port returns the same reading to both
        state['neff'] = len(diffs)       # what follows are timing obligations
        cap = mc.sim.captured
        odd = (mc.mem.o7ffd.e & 1) == 1 if mach == '128K' else None
        tm0 = SymInt(mc.regs0[25], 0, sh.REG_RANGES[25]) % M['frame']
        if cap:
            # one or more contend() calls: consecutive segments of one pattern
            total = z3.BitVecVal(0, W)
            t_expect = tm0.e
            pattern = []
            for j, (t_arg, seg) in enumerate(cap):
                dv = z3.BitVec('delay%d' % (j + 1), W)
                diffs.append(bv(t_arg) != t_expect); names.append('start time of contend call %d' % (j + 1))
                total = total + dv
                t_expect = t_expect + dv + sum(n for a, n in seg)
                pattern.extend(seg)
            diffs.append(pc_[25] != pp_[25] + total); names.append('T != plain T + contention delay')
            ref = ref_pattern(p, mach, slot, mc.regs0, mc.mem0, odd)
            if ref is None:
                diffs.append(z3.BoolVal(True)); names.append('documented pattern depends on a condition the closure did not test')
            elif len(ref) != len(pattern) or any(n != rn for (a, n), (rc, rn) in zip(pattern, ref)):
                diffs.append(z3.BoolVal(True))
                names.append('cycle lengths %s, documented %s' % ([n for a, n in pattern], [n for c, n in ref]))
            else:
                for j, ((a, n), (rc, rn)) in enumerate(zip(pattern, ref)):
                    diffs.append(sim_contended(mach, a, odd) != rc); names.append('contention class of cycle %d' % j)
        else:
            diffs.append(pc_[25] != pp_[25]); names.append('T differs although contend was not called')
            # skipping contend is only right if the documented delay is 0 here.  Every documented cycle starts within
            # 22 T-states of the start of the instruction when no wait is inserted (checked statically below), so it is
            # enough that the wait pattern is 0 at every t in [tm, tm + 22]: one universally quantified t.
            longest = sum((4 if c.io else c.n) for c in z80ref.cycles(slot, mc.regs0, mc.mem0))
            if longest > 23:
                diffs.append(z3.BoolVal(True)); names.append('documented cycles sum to %d > 23' % longest)
            off = sym_int('t_off', 0, 22)
            diffs.append(sh.delay_term(mach, tm0 + off) != 0); names.append('contend skipped where the documented delay may be non-zero')
        neff = state['neff']
        r, mod, which_ = p.check_any(diffs[:neff], names[:neff])
        if r == 'unknown':
            res['inconclusive'].append(name); return
        if r == 'sat':
            which = '; '.join(which_)
            res['violations'].append(dict(key='%s:%s' % (name, which[:60]), text='%s: %s' % (name, which), case=case(mod)))
            return
        r, mod, which_ = p.check_any(diffs[neff:], names[neff:])
        if r == 'unknown':
            res['inconclusive'].append(name); return
        if r == 'sat':
            # The structural (sufficient) timing obligations do not hold on this path.  Decide by the fold lemma: the real
            # contend() equals the reference fold (fold part), so the closure's delay is the fold of the pattern it passed
            # (0 if it skipped contend); compare that with the fold of the documented cycles for every state on this path.
            pat_sim = [(sim_contended(mach, a, odd), n) for t_, seg in cap for a, n in seg]
            d_sim = ref_fold(mach, tm0, pat_sim) if cap else 0
            for extra, ref2 in ref_patterns(p, mach, slot, mc.regs0, mc.mem0, odd):
                d_ref = ref_fold(mach, tm0, ref2)
                with p.assuming(*extra):
                    r2, mod2 = p.check(bv(d_sim) != bv(d_ref), model=True)
                if r2 == 'unknown':
                    res['inconclusive'].append(name + ': fold comparison'); return
                if r2 == 'sat':
                    res['violations'].append(dict(key='%s:delay' % name, text='%s: contention delay differs from the documented cycles (%s)' % (name, '; '.join(which_)[:160]), case=case(mod2)))
                    return
            state['equivalent_patterns'] = state.get('equivalent_patterns', 0) + 1
        fo = p.failed_obligations()
        if fo:
            res['violations'].append(dict(key='%s:%s' % (name, fo[0][0]), text='%s: %s can fail' % (name, fo[0][0]), case=case(fo[0][2])))
            return
        res['discharged'] += 1
        res['nontrivial'] += 1
        if not res['samples'] and cap:
            res['samples'].append({'slot': name, 'captured_pattern_lengths': [n for t_, seg in cap for a, n in seg], 'obligation': 'pattern == documented cycles; non-T effects == plain simulator; T == plain T + delay', 'verdict': 'unsat'})

    try:
        explore(fn, stats=st, on_path=on)
    except Inconclusive as e:
        res['inconclusive'].append('%s: %s' % (name, e))
    finish(res, st)
    if state.get('equivalent_patterns'):
        res['extra'] = {'paths_with_structurally_different_but_delay_equivalent_patterns': state['equivalent_patterns']}
    return res


# ---------------------------------------------------------------------------
def check_fold(item):
    """real contend_48k / contend_128k on a symbolic pattern of k cycles == reference fold"""
    _, mach, k = item
    import skoolkit.cmiosimulator as cm
    mem = None
    if mach == '128K':
        mem = Flat128('mem', 65536)
        mem.length = 65536
        mem.o7ffd = 0
    key = ('fold', mach)
    if key not in _MACH:
        _MACH[key] = sh.Machine(cm.CMIOSimulator, mach, None, mem128=mem)
    mc = _MACH[key]
    M = sh.MACHINES[mach]
    st = Stats()
    res = new_res()
    name = 'contend_%s k=%d' % (mach.lower(), k)

    def fn(path):
        if mach == '128K':
            mc.mem.o7ffd = sym_int('o7ffd', 0, 255)
        t = sym_int('t', 0, M['frame'] - 1 - 30 * k)
        pattern = [(sym_int('a%d' % i, 0, 65535), sym_int('n%d' % i, 1, 4)) for i in range(k)]
        d = mc.sim.contend(t, tuple(pattern))
        return t, pattern, d

    def on(p, out):
        res['obligations'] += 1
        if out[0] == 'exception':
            res['violations'].append(dict(key=name + ':exception', text='%s raises %r' % (name, out[1]), case=dict(kind='fold')))
            return
        t, pattern, d = out
        odd = (mc.mem.o7ffd.e & 1) == 1 if mach == '128K' else None
        ref = [(z80ref.contended(mach, z3.Extract(15, 0, a.e), odd), n) for a, n in pattern]
        rd = ref_fold(mach, t, ref)
        none = z3.Not(z3.Or(*[c for c, n in ref]))
        bad = z3.Or(bv(d) != bv(rd), bv(d) < 0, z3.And(none, bv(d) != 0))
        r, mod = p.check(bad, model=True)
        if r == 'unknown':
            res['inconclusive'].append(name); return
        if r == 'sat' or p.failed_obligations():
            if mod is None:
                r, mod = p.check(model=True)
            tv = mod.eval(t.e, model_completion=True).as_long()
            pat = [(mod.eval(a.e, model_completion=True).as_long(), mod.eval(n.e, model_completion=True).as_long()) for a, n in pattern]
            o7 = mod.eval(mc.mem.o7ffd.e, model_completion=True).as_long() if mach == '128K' else 0
            res['violations'].append(dict(key=name, text='%s(t=%d, %r) o7ffd=%d differs from the reference fold' % (name, tv, pat, o7),
                                          case=dict(kind='fold', machine=mach, t=tv, pattern=pat, o7ffd=o7)))
            return
        res['discharged'] += 1
        res['nontrivial'] += 1
        if not res['samples']:
            res['samples'].append({'item': name, 'obligation': 'contend(t, pattern) == fold of 6,5,4,3,2,1,0,0 over contended cycles; >= 0; 0 if none contended', 'verdict': 'unsat'})

    try:
        explore(fn, stats=st, on_path=on)
    except Inconclusive as e:
        res['inconclusive'].append('%s: %s' % (name, e))
    return finish(res, st)


def check_io(item):
    _, mach = item
    import skoolkit.cmiosimulator as cm
    key = ('fold', mach)
    mem = None
    if mach == '128K':
        mem = Flat128('mem', 65536)
        mem.length = 65536
        mem.o7ffd = 0
    if key not in _MACH:
        _MACH[key] = sh.Machine(cm.CMIOSimulator, mach, None, mem128=mem)
    mc = _MACH[key]
    st = Stats()
    res = new_res()
    name = 'io_contention_%s' % mach.lower()

    def fn(path):
        if mach == '128K':
            mc.mem.o7ffd = sym_int('o7ffd', 0, 255)
        port = sym_int('port', 0, 65535)
        return port, mc.sim.io_contention(port)

    def on(p, out):
        res['obligations'] += 1
        if out[0] == 'exception':
            res['violations'].append(dict(key=name + ':exception', text='%s raises %r' % (name, out[1]), case=dict(kind='io')))
            return
        port, pattern = out
        odd = (mc.mem.o7ffd.e & 1) == 1 if mach == '128K' else None
        p16 = z3.Extract(15, 0, port.e)
        hic, lowc = z80ref.contended(mach, p16, odd), z3.Extract(0, 0, p16) == 1
        ok, mod = True, None
        for h in (True, False):
            for lw in (True, False):
                extra = [hic if h else z3.Not(hic), lowc if lw else z3.Not(lowc)]
                with p.assuming(*extra):
                    r, m_ = p.check(model=True)
                    if r != 'sat':
                        continue
                    ref = z80ref.io_cycles(h, lw)
                    got = [(decide(p, sim_contended(mach, a, odd)), n) for a, n in pattern]
                    if got != ref:
                        ok, mod = False, m_
        if not ok:
            r = 'sat'
            pv = mod.eval(port.e, model_completion=True).as_long()
            o7 = mod.eval(mc.mem.o7ffd.e, model_completion=True).as_long() if mach == '128K' else 0
            res['violations'].append(dict(key=name, text='%s(%d) with o7ffd=%d is not the documented I/O pattern' % (name, pv, o7),
                                          case=dict(kind='io', machine=mach, port=pv, o7ffd=o7)))
            return
        res['discharged'] += 1
        res['nontrivial'] += 1

    try:
        explore(fn, stats=st, on_path=on)
    except Inconclusive as e:
        res['inconclusive'].append('%s: %s' % (name, e))
    return finish(res, st)


def check_delays(item):
    """finite, exhaustive, concrete: the real DELAYS_* lists against the closed form (this step is not a solver query)"""
    _, mach = item
    import skoolkit.cmiosimulator as cm
    res = new_res()
    t = getattr(cm, 'DELAYS_' + mach)
    real = t.real if isinstance(t, sh.DelayTable) else list(t)
    res['obligations'] = 1
    bad = [i for i in range(len(real)) if real[i] != sh.delay_concrete(mach, i)]
    if len(real) != sh.MACHINES[mach]['frame']:
        bad.append(len(real))
    if bad:
        res['violations'].append(dict(key='DELAYS_' + mach, text='DELAYS_%s[%d] = %r, closed form %d' % (mach, bad[0], real[bad[0]] if bad[0] < len(real) else None, sh.delay_concrete(mach, bad[0])),
                                      case=dict(kind='delays', machine=mach, t=bad[0])))
    else:
        res['discharged'] = 1
        res['nontrivial'] = 1
        res['extra'] = {'delay_table_entries_compared': len(real)}
    res.update(paths=1, queries=0, solver_s=0.0)
    return res


def check_semantic(item):
    """end to end: real closure with the real contend vs reference fold of the documented cycles"""
    _, mach, tracer, table, op = item
    slot = (table, op)
    mc, mp = machines(mach, tracer, False)
    st = Stats()
    res = new_res()
    name = 'CMIOSimulator(real contend) %s %s' % (mach, harness.item_name(slot))
    pins = z80ref.slot_bytes(slot)
    M = sh.MACHINES[mach]

    def fn(path):
        both(mc, mp, path, pins)
        mc.sim.opcodes[pins[0]]()
        mp.sim.opcodes[pins[0]]()

    def on(p, out):
        res['obligations'] += 1
        if out is not None:
            res['violations'].append(dict(key=name + ':exception', text='%s raises %r' % (name, out[1]), case=dict(kind='none')))
            return
        odd = (mc.mem.o7ffd.e & 1) == 1 if mach == '128K' else None
        tm0 = SymInt(mc.regs0[25], 0, sh.REG_RANGES[25]) % M['frame']
        r, mod = 'unsat', None
        for extra, ref in ref_patterns(p, mach, slot, mc.regs0, mc.mem0, odd):
            d = ref_fold(mach, tm0, ref)
            bad = mc.post_regs()[25] != mp.post_regs()[25] + bv(d)
            with p.assuming(*extra):
                r, mod = p.check(bad, model=True)
            if r != 'unsat':
                break
        if r == 'unknown':
            res['inconclusive'].append(name); return
        if r == 'sat':
            regs, mem, inputs = simcheck.model_state(mod, mc)
            o7 = mod.eval(mc.mem.o7ffd.e, model_completion=True).as_long() if mach == '128K' else 0
            res['violations'].append(dict(key=name + ':delay', text='%s: delay differs from the documented fold' % name,
                                          case=dict(kind='step', machine=mach, tracer=tracer, slot=list(slot), regs=regs, mem=mem, inputs=inputs, o7ffd=o7)))
            return
        res['discharged'] += 1
        res['nontrivial'] += 1

    try:
        explore(fn, stats=st, on_path=on)
    except Inconclusive as e:
        res['inconclusive'].append('%s: %s' % (name, e))
    return finish(res, st)


def work(item):
    return {'pattern': check_pattern, 'fold': check_fold, 'io': check_io, 'delays': check_delays, 'semantic': check_semantic}[item[0]](item)


# ---------------------------------------------------------------------------
def concrete_cycles(slot, regs, mem, default, mach, o7):
    r = [z3.BitVecVal(v, W) for v in regs]
    arr = z3.K(z3.BitVecSort(16), z3.BitVecVal(default, 8))
    for a, v in mem.items():
        arr = z3.Store(arr, z3.BitVecVal(a, 16), z3.BitVecVal(v, 8))
    odd = z3.BoolVal(bool(o7 & 1))
    out = []
    for c in z80ref.cycles(tuple(slot), r, arr):
        if c.cond is not None and not z3.is_true(z3.simplify(c.cond)):
            continue
        a = z3.simplify(c.addr).as_long()
        cont = z3.is_true(z3.simplify(z80ref.contended(mach, z3.BitVecVal(a, 16), odd)))
        if c.io:
            out.extend(z80ref.io_cycles(cont, bool(a & 1)))
        else:
            out.append((cont, c.n))
    return out


def concrete_fold(mach, t, pattern):
    delay = 0
    for c, n in pattern:
        d = sh.delay_concrete(mach, t) if c and 0 <= t < sh.MACHINES[mach]['frame'] else 0
        delay += d
        t += d + n
    return delay


def real_sims(mach, regs, mem, default, o7, tracer, inputs):
    import skoolkit.simulator as sm
    import skoolkit.cmiosimulator as cm
    import skoolkit.pagingtracer as pt
    M = sh.MACHINES[mach]
    cfg = {'frame_duration': M['frame'], 'int_active': M['int_active']}
    out = []
    for cls in (cm.CMIOSimulator, sm.Simulator):
        flat = simcheck.mem_list(mem, default)
        if mach == '128K':
            # lay the flat 64K view out over real banks: ROM, 5, 2, paged bank
            memory = pt.Memory.__new__(pt.Memory)
            banks = [[0] * 0x4000 for _ in range(8)]
            memory.banks = tuple(banks)
            memory.roms = ([0] * 0x4000, [0] * 0x4000)
            memory.memory = [None, banks[5], banks[2], None]
            memory.machine = '128K'
            memory.out7ffd(o7)
            for slot_ in range(4):
                memory.memory[slot_][:] = flat[slot_ * 0x4000:(slot_ + 1) * 0x4000]
            if o7 % 8 in (5, 2):
                return None    # the flat view cannot be laid out when the paged bank is also bank 5/2
        else:
            memory = flat
        sim = cls(memory, config=dict(cfg))
        sim.registers[:] = list(regs)
        events = []
        if tracer:
            ins = list(inputs)

            class Tr:
                def read_port(self, registers, port):
                    events.append(('in', port))
                    return ins.pop(0) if ins else 255

                def write_port(self, registers, port, value, offset):
                    events.append(('out', port, value, offset))
            sim.set_tracer(Tr())
        sim.opcodes[flat[regs[24]]]()
        out.append((list(sim.registers), [memory[a] for a in range(65536)], events))
    return out


def replay(case):
    kind = case['kind']
    if kind == 'delays':
        import skoolkit.cmiosimulator as cm
        t = case['t']
        real = getattr(cm, 'DELAYS_' + case['machine'])
        got = real[t] if t < len(real) else None
        return got != sh.delay_concrete(case['machine'], t), 'DELAYS[%d]=%r closed form %d' % (t, got, sh.delay_concrete(case['machine'], t))
    import skoolkit.cmiosimulator as cm
    if kind in ('fold', 'io'):
        mach = case['machine']
        if mach == '128K':
            memory = type('M', (), {'__len__': lambda self: 0x20000})()
            memory.o7ffd = case['o7ffd']
        else:
            memory = [0] * 65536
        sim = cm.CMIOSimulator.__new__(cm.CMIOSimulator)
        sim.memory = memory
        odd = z3.BoolVal(bool(case['o7ffd'] & 1))
        cls = lambda a: z3.is_true(z3.simplify(z80ref.contended(mach, z3.BitVecVal(a & 0xFFFF, 16), odd)))
        if kind == 'fold':
            fn = sim.contend_128k if mach == '128K' else sim.contend_48k
            pat = [tuple(x) for x in case['pattern']]
            got = fn(case['t'], pat)
            want = concrete_fold(mach, case['t'], [(cls(a), n) for a, n in pat])
            return got != want, 'contend=%r reference=%r' % (got, want)
        fn = sim.io_contention_128k if mach == '128K' else sim.io_contention_48k
        got = [(cls(a), n) for a, n in fn(case['port'])]
        want = z80ref.io_cycles(cls(case['port']), bool(case['port'] & 1))
        return got != want, 'io pattern %r documented %r' % (got, want)
    if kind != 'step':
        return False, 'no replay for ' + kind
    mach = case['machine']
    mem, default = simcheck.mem_from_case(case['mem'])
    regs = case['regs']
    slot = case['slot']
    try:
        r = real_sims(mach, regs, mem, default, case.get('o7ffd', 0), case.get('tracer'), case.get('inputs', ()))
    except Exception as e:
        return True, 'raises %r' % e
    if r is None:
        return False, 'counterexample not representable with real banks'
    (rc, memc, evc), (rp, memp, evp) = r
    bad = []
    bit_hl = slot[0] == 'CB' and (slot[1] >> 6) == 1 and (slot[1] & 7) == 6
    for i in range(30):
        if i in (25, 29):
            continue
        a, b = rc[i], rp[i]
        if i == 1 and bit_hl:
            a, b = a & 0xD7, b & 0xD7
        if a != b:
            bad.append('%s=%r plain %r' % (sh.REG_NAMES[i], rc[i], rp[i]))
    if memc != memp:
        bad.append('memory differs from the plain simulator')
    if [e[:3] for e in evc] != [e[:3] for e in evp]:
        bad.append('port events differ')
    tm = regs[25] % sh.MACHINES[mach]['frame']
    want = concrete_fold(mach, tm, concrete_cycles(slot, regs, mem, default, mach, case.get('o7ffd', 0)))
    got = rc[25] - rp[25]
    if got != want:
        bad.append('delay %d, documented %d (t=%d)' % (got, want, tm))
    return bool(bad), '; '.join(bad) or 'real code agrees with the reference on this input'


# ---------------------------------------------------------------------------
def main():
    args = harness.parse_args(PROP)
    if args.replay:
        ok, detail = replay(harness.load_case(args.replay))
        print(('REPRODUCED: ' if ok else 'not reproduced: ') + detail)
        return 1 if ok else 0
    slots = z80ref.all_slots()
    items = []
    for mach in ('48K', '128K'):
        if mach == '128K' and args.tier == 'quick':
            # the closures are the same code for both machines; what differs (contend_128k, io_contention_128k, t0/t1) is
            # exercised in quick by the I/O slots, the fold/io/delays parts and every 16th slot
            sel = [s for n, s in enumerate(slots) if n % 16 == args.seed % 16 or s in simcheck.IO_SLOTS]
        else:
            sel = slots
        items += [('pattern', mach, False) + s for s in sel]
        items += [('pattern', mach, True) + s for s in sel if s in simcheck.IO_SLOTS]
        items += [('fold', mach, k) for k in (1, 2)]
        items += [('io', mach), ('delays', mach)]
    if args.tier == 'thorough':
        for mach in ('48K', '128K'):
            items += [('semantic', mach, False) + s for s in slots]
    if args.only:
        items = [i for i in items if args.only in harness.item_name(i)]
    rep = harness.Report(
        PROP, args,
        functions=['skoolkit.cmiosimulator.CMIOSimulator.* closures (all slots; contend() call arguments captured)', 'skoolkit.simulator.Simulator.* closures (same state)',
                   'CMIOSimulator.contend_48k / contend_128k', 'CMIOSimulator.io_contention_48k / io_contention_128k', 'cmiosimulator.DELAYS_48K / DELAYS_128K'],
        bounds={'instructions': 1, 'state': 'all registers, memory, T (any frame position), 0x7FFD value symbolic', 'fold pattern length': '1 and 2 cycles (symbolic address, length 1..4, start t): the loop body is the same for every cycle and k=2 exercises the carry of t and delay between iterations; longer patterns follow by induction over the loop',
                'outside': 'the C implementation (C06); accept_interrupt timing'},
        assumptions=['state invariant as in C05', 'documented machine cycles per instruction as transcribed in lib/z80ref.cycles (reference)'] + z80ref.CYCLE_CONVENTIONS,
        stubs=['in the per-slot part CMIOSimulator.contend_* is replaced by a recorder returning a fresh symbolic delay (the real function is checked in the fold part)',
               '128K memory is a flat 64K symbolic array with len()=0x20000 and an o7ffd attribute (C08 shows Memory get/set is exactly a flat view)',
               'DELAYS_48K/128K replaced by their closed form, validated against every entry of the real lists'],
        rule='one case per feasible path of (CMIO closure; plain closure) per slot and machine, plus contend/io_contention paths; all non-trivial (symbolic state)',
        explanation='Bounded symbolic verification: pattern equality per slot + fold correctness of contend + I/O patterns + delay table closed form together give: '
                    'delay = documented sum of ULA waits for every instruction, state, address placement and frame position; non-T effects equal the plain simulator.')
    for r in harness.pmap(work, items, args.jobs, init=init_worker, seed=args.seed):
        rep.add(r)
    if rep.paths < rep.items:
        rep.vacuity.append('some work items explored no path')
    return rep.finish(replay_in_subprocess=os.path.abspath(__file__))


if __name__ == '__main__':
    sys.exit(main())
