#!/venv/bin/python
"""C05: the Python simulators implement Z80 instruction semantics.

For each of the 1792 dispatch-table slots the real closure (built by the real create_opcodes) is executed
symbolically from an arbitrary machine state; on every path the post-state is compared with the reference model
of lib/z80ref.py by one solver query (registers, documented flags, memory as an array, PC, SP, IFF, IM, HALT, T,
port events).  The flag tables are additionally compared entry-for-all-entries with the reference primitives.
"""
import os
import sys
import time

sys.path.insert(0, os.path.join(os.path.dirname(os.path.abspath(__file__)), '..', 'lib'))
import bootstrap  # noqa
import z3
import harness
import z80ref
import simharness as sh
import simcheck
from symx import Stats, HarnessError, Inconclusive, SymInt, bv, W, explore, sym_int, Path

PROP = 'C05'
IO_SLOTS = simcheck.IO_SLOTS
machine = simcheck.get_machine


def init_worker():
    sh.patch_tables()
    sh.patch_delays()


def compare(p, m, ref, skip=(), t_exact=True):
    """-> (list of z3 disequalities, names)"""
    post = m.post_regs()
    diffs, names = [], []
    for i in range(30):
        if i in skip:
            continue
        if i == 1:
            d = ((post[1] ^ ref.r[1]) & z3.ZeroExt(56, ref.fmask_expr)) != 0
        elif i == 25 and not t_exact:
            continue
        else:
            d = post[i] != ref.r[i]
        diffs.append(d); names.append(sh.REG_NAMES[i])
    k = z3.BitVec('k_addr', 16)
    diffs.append(z3.Select(m.mem.arr, k) != z3.Select(ref.mem, k)); names.append('memory')
    return diffs, names


def port_diffs(m, ref):
    """port events of the real code vs the reference -> (structural mismatch text or None, diffs, names)"""
    ev = m.tracer.events if m.tracer else []
    exp = [('in', p) for p in ref.reads] + [('out', p, v) for p, v in ref.writes]
    if not m.tracer:
        return None, [], []
    if len(ev) != len(exp) or any(a[0] != b[0] for a, b in zip(ev, exp)):
        return 'port events %s, reference %s' % ([e[0] for e in ev], [e[0] for e in exp]), [], []
    diffs, names = [], []
    for a, b in zip(ev, exp):
        diffs.append(bv(a[1]) != z3.ZeroExt(W - 16, b[1])); names.append('port address')
        if a[0] == 'out':
            diffs.append(bv(a[2]) != z3.ZeroExt(W - 8, b[2])); names.append('port value')
    return None, diffs, names


def check_slot(item):
    cls_name, mach, tracer, table, op = item
    slot = (table, op)
    m = machine(cls_name, mach, tracer)
    st = Stats()
    res = {'obligations': 0, 'discharged': 0, 'violations': [], 'inconclusive': [], 'samples': [], 'nontrivial': 0}
    cmio = cls_name.startswith('CMIOSimulator')

    def on(p, m, out):
        name = '%s %s %s%s' % (cls_name, mach, harness.item_name(slot), ' tracer' if tracer else '')
        res['obligations'] += 1
        if out is not None:
            r, mod = p.check(model=True)
            regs, mem, inputs = simcheck.model_state(mod, m)
            res['violations'].append(dict(key='%s:exception:%s' % (name, type(out[1]).__name__),
                                          text='%s raises %r' % (name, out[1]),
                                          case=dict(kind='step', cls=cls_name, machine=mach, tracer=tracer, slot=list(slot), regs=regs, mem=mem, inputs=inputs)))
            return
        pv = z3.Extract(7, 0, m.tracer.inputs[0].e) if (tracer and m.tracer.inputs) else z3.BitVecVal(255, 8)
        env = sh.RefEnv(mach, tracer, pv)
        ref = z80ref.step(slot, m.regs0, m.mem0, env)
        diffs, names = compare(p, m, ref, skip=(29,) if cmio else (), t_exact=not cmio)
        if cmio:
            # contention may only add delay (the exact delay is C19's subject)
            diffs.append(m.post_regs()[25] < ref.r[25]); names.append('T')
        bad, pd, pn = port_diffs(m, ref)
        diffs += pd; names += pn
        if bad:
            r, mod = p.check(model=True)
        else:
            r, mod, which_ = p.check_any(diffs, names)
        if r == 'unknown':
            res['inconclusive'].append(name + ': solver unknown')
            return
        if r == 'sat':
            which = bad or ', '.join(which_)
            regs, mem, inputs = simcheck.model_state(mod, m)
            res['violations'].append(dict(key='%s:%s' % (name, which), text='%s differs from the Z80 reference in: %s' % (name, which),
                                          case=dict(kind='step', cls=cls_name, machine=mach, tracer=tracer, slot=list(slot), regs=regs, mem=mem, inputs=inputs)))
            return
        fo = p.failed_obligations()
        if fo:
            kind, c, mod = fo[0]
            regs, mem, inputs = simcheck.model_state(mod, m)
            res['violations'].append(dict(key='%s:%s' % (name, kind), text='%s: %s can fail' % (name, kind),
                                          case=dict(kind='step', cls=cls_name, machine=mach, tracer=tracer, slot=list(slot), regs=regs, mem=mem, inputs=inputs, side=kind)))
            return
        res['discharged'] += 1
        res['nontrivial'] += 1
        if not res['samples']:
            res['samples'].append({'slot': name, 'path_condition_size': len(p.pc), 'obligation': 'post-state == reference(pre-state) on: ' + ', '.join(names[:6]) + ', ...', 'verdict': 'unsat'})

    try:
        sh.run_slot(m, slot, on, st)
    except Inconclusive as e:
        res['inconclusive'].append('%s: %s' % (harness.item_name(item), e))
    res.update(paths=st.paths, queries=st.queries, solver_s=st.solver_s, realisations=st.realisations)
    return res


# ---------------------------------------------------------------------------
def check_interrupt(item):
    cls_name, mach = item[1], item[2]
    m = machine(cls_name, mach, False)
    st = Stats()
    res = {'obligations': 0, 'discharged': 0, 'violations': [], 'inconclusive': [], 'samples': [], 'nontrivial': 0}
    cmio = cls_name == 'CMIOSimulator'

    def fn(path):
        m.reset(path)
        prev = sym_int('prev_pc', 0, 65535)
        m.prev = prev
        m.ret = m.sim.accept_interrupt(m.sim.registers, m.sim.memory, prev)

    def on(p, out):
        res['obligations'] += 1
        name = '%s %s accept_interrupt' % (cls_name, mach)
        env = sh.RefEnv(mach)
        ref = z80ref.accept_interrupt(m.regs0, m.mem0, env)
        prev16 = z3.Extract(15, 0, m.prev.e)
        opc = z3.Select(m.mem0, prev16)
        pc16 = z3.Extract(15, 0, m.regs0[24])
        deferred = z3.Or(opc == 0xFB, z3.And(z3.Or(opc == 0xDD, opc == 0xFD), prev16 == pc16 - 1))
        post = m.post_regs()
        diffs = []
        for i in range(30):
            if i == 29 and cmio:
                continue
            diffs.append(post[i] != z3.If(deferred, m.regs0[i], ref.r[i]))
        k = z3.BitVec('k_addr', 16)
        diffs.append(z3.Select(m.mem.arr, k) != z3.Select(z3.If(deferred, m.mem0, ref.mem), k))
        if out is not None:
            diffs = [z3.BoolVal(True)]
        elif isinstance(m.ret, bool):
            diffs.append(z3.BoolVal(m.ret) == deferred)
        r, mod = p.check(z3.Or(*diffs), model=True)
        if r == 'unknown':
            res['inconclusive'].append(name); return
        if r == 'sat':
            regs, mem, _ = simcheck.model_state(mod, m)
            res['violations'].append(dict(key=name, text=name + ' differs from the reference',
                                          case=dict(kind='interrupt', cls=cls_name, machine=mach, regs=regs, mem=mem,
                                                    prev_pc=mod.eval(m.prev.e, model_completion=True).as_long())))
            return
        if p.failed_obligations():
            res['violations'].append(dict(key=name + ':side', text=name + ': index/byte range obligation can fail', case=dict(kind='interrupt-side')))
            return
        res['discharged'] += 1
        res['nontrivial'] += 1

    explore(fn, stats=st, on_path=on)
    res.update(paths=st.paths, queries=st.queries, solver_s=st.solver_s)
    return res


# ---------------------------------------------------------------------------
TABLE_SPECS = None


def table_specs():
    """(name, index names with ranges, lambda idx -> (reference result8 or None, reference flags8), mask)"""
    R = z80ref
    Z = R.ZERO

    def c1(c): return z3.Extract(0, 0, c)
    specs = [
        ('ADC', 3, lambda c, a, b: R.add8(a, b, c1(c))), ('SBC', 3, lambda c, a, b: R.sub8(a, b, c1(c))),
        ('ADD', 2, lambda a, b: R.add8(a, b, Z)), ('SUB', 2, lambda a, b: R.sub8(a, b, Z)),
        ('AND', 2, lambda a, b: R.logic8('and', a, b)), ('OR', 2, lambda a, b: R.logic8('or', a, b)),
        ('XOR', 2, lambda a, b: R.logic8('xor', a, b)),
        ('CP', 2, lambda a, b: (a, R.sub8(a, b, Z)[1])),
        ('INC', 2, lambda c, v: R.inc8(v, c)), ('DEC', 2, lambda c, v: R.dec8(v, c)),
        ('NEG', 1, lambda a: R.sub8(R.b8(0), a, Z)),
        ('RL', 2, lambda c, v: R.rot('RL', v, c)), ('RR', 2, lambda c, v: R.rot('RR', v, c)),
        ('RLC', 1, lambda v: R.rot('RLC', v, R.b8(0))), ('RRC', 1, lambda v: R.rot('RRC', v, R.b8(0))),
        ('SLA', 1, lambda v: R.rot('SLA', v, R.b8(0))), ('SRA', 1, lambda v: R.rot('SRA', v, R.b8(0))),
        ('SLL', 1, lambda v: R.rot('SLL', v, R.b8(0))), ('SRL', 1, lambda v: R.rot('SRL', v, R.b8(0))),
        ('RLA', 2, lambda a, f: R.rot_a('RL', a, f)), ('RRA', 2, lambda a, f: R.rot_a('RR', a, f)),
        ('RLCA', 2, lambda a, f: R.rot_a('RLC', a, f)), ('RRCA', 2, lambda a, f: R.rot_a('RRC', a, f)),
        ('DAA', 2, lambda a, f: R.daa(a, f)),
        ('ADC_A_A', 2, lambda c, a: R.add8(a, a, c1(c))), ('SBC_A_A', 2, lambda c, a: R.sub8(a, a, c1(c))),
        ('CPL', 2, lambda a, f: (~a, R.flags(R.bit(f, 7), R.bit(f, 6), R.ONE, R.bit(f, 2), R.ONE, R.bit(f, 0)))),
        ('SCF', 2, lambda f, a: (None, R.flags(R.bit(f, 7), R.bit(f, 6), Z, R.bit(f, 2), Z, R.ONE))),
        ('CCF', 2, lambda f, a: (None, R.flags(R.bit(f, 7), R.bit(f, 6), R.bit(f, 0), R.bit(f, 2), Z, ~R.bit(f, 0)))),
        ('SZ53P', 1, lambda v: (None, R.szp(v, Z, Z, Z))),
        ('PARITY', 1, lambda v: (None, z3.Concat(z3.BitVecVal(0, 5), R.parity8(v), z3.BitVecVal(0, 2)))),
    ]
    return specs


def check_table(item):
    name = item[1]
    spec = [s for s in table_specs() if s[0] == name][0]
    _, nidx, f = spec
    st = Stats()
    res = {'obligations': 0, 'discharged': 0, 'violations': [], 'inconclusive': [], 'samples': [], 'nontrivial': 0}
    tabs = sh._TABLES

    def fn(path):
        t = tabs[name]
        idx = []
        for k in range(nidx):
            n = len(t)
            i = sym_int('i%d' % k, 0, n - 1)
            idx.append(i)
            t = t[i]
        return idx, t

    def on(p, out):
        res['obligations'] += 1
        if out[0] == 'exception':
            res['violations'].append(dict(key='table ' + name + ':exception', text='table %s: %r' % (name, out[1]), case=dict(kind='table', name=name)))
            return
        idx, val = out
        args = [z3.Extract(7, 0, i.e) for i in idx]
        rres, rfl = f(*args)
        if isinstance(val, tuple):
            got_res, got_fl = bv(val[0]), bv(val[1])
        else:
            got_res, got_fl = None, bv(val)
        diffs = [((got_fl ^ z3.ZeroExt(W - 8, rfl)) & z80ref.DOC) != 0, got_fl > 255, got_fl < 0]
        if rres is not None and got_res is not None:
            diffs.append(got_res != z3.ZeroExt(W - 8, rres))
        r, mod = p.check(z3.Or(*diffs), model=True)
        if r == 'unknown':
            res['inconclusive'].append('table ' + name); return
        if r == 'sat':
            ix = [mod.eval(i.e, model_completion=True).as_long() for i in idx]
            res['violations'].append(dict(key='table %s' % name, text='table %s%s differs from the reference primitive' % (name, ix),
                                          case=dict(kind='table', name=name, index=ix)))
            return
        if p.failed_obligations():
            res['violations'].append(dict(key='table %s:side' % name, text='table %s: index obligation fails' % name, case=dict(kind='table', name=name)))
            return
        res['discharged'] += 1
        res['nontrivial'] += 1
        if not res['samples']:
            res['samples'].append({'table': name, 'obligation': 'forall indices: documented flags and result of %s[...] == reference primitive' % name, 'verdict': 'unsat'})

    explore(fn, stats=st, on_path=on)
    res.update(paths=st.paths, queries=st.queries, solver_s=st.solver_s)
    return res


def work(item):
    if item[0] == 'interrupt':
        return check_interrupt(item)
    if item[0] == 'table':
        return check_table(item)
    return check_slot(item)


# ---------------------------------------------------------------------------
def replay(case):
    """re-run a counterexample on the unpatched code with concrete values; True if the violation reproduces"""
    kind = case['kind']
    if kind == 'table':
        import skoolkit.simtables as st
        t = getattr(st, case['name'])
        idx = case.get('index')
        if idx is None:
            return False, 'no concrete index'
        for i in idx:
            t = t[i]
        spec = [s for s in table_specs() if s[0] == case['name']][0]
        rres, rfl = spec[2](*[z3.BitVecVal(i, 8) for i in idx])
        rfl = z3.simplify(rfl).as_long()
        got_fl = t[1] if isinstance(t, tuple) else t
        ok = (got_fl ^ rfl) & z80ref.DOC != 0 or not 0 <= got_fl <= 255
        if rres is not None and isinstance(t, tuple):
            ok = ok or t[0] != z3.simplify(rres).as_long()
        return ok, 'table %s%s = %r, reference flags %#x' % (case['name'], idx, t, rfl)
    mem, default = simcheck.mem_from_case(case['mem'])
    regs = case['regs']
    if kind == 'interrupt':
        import skoolkit.simulator as sm
        import skoolkit.cmiosimulator as cm
        cls = {'Simulator': sm.Simulator, 'CMIOSimulator': cm.CMIOSimulator, 'CMIOSimulator-rec': cm.CMIOSimulator}[case['cls']]
        memory = simcheck.mem_list(mem, default)
        mm = sh.MACHINES[case['machine']]
        sim = cls(memory, config={'frame_duration': mm['frame'], 'int_active': mm['int_active']})
        sim.registers[:] = list(regs)
        prev = case['prev_pc']
        try:
            sim.accept_interrupt(sim.registers, memory, prev)
        except Exception as e:
            return True, 'raises %r' % e
        opc = mem.get(prev, default)
        deferred = opc == 0xFB or (opc in (0xDD, 0xFD) and prev == (regs[24] - 1) % 65536)
        if deferred:
            exp, post, fmask = list(regs), {}, 0xFF
        else:
            exp, post, fmask, _, _ = simcheck.concrete_ref('interrupt', regs, mem, case['machine'], default=default)
        return _cmp_real(case, sim.registers, memory, mem, exp, post, 0xFF, default)
    slot = tuple(case['slot'])
    try:
        got, memory, events = simcheck.run_real(case['cls'], slot, regs, mem, case['machine'], case.get('inputs', ()), case.get('tracer'), default=default)
    except Exception as e:
        return True, 'raises %r' % e
    pv = (case.get('inputs') or [255])[0]
    exp, post, fmask, reads, writes = simcheck.concrete_ref(slot, regs, mem, case['machine'], case.get('tracer'), pv, default)
    ok, detail = _cmp_real(case, got, memory, mem, exp, post, fmask, default)
    if case.get('tracer'):
        want = [('in', p) for p in reads] + [('out', p, v) for p, v in writes]
        have = [e[:3] for e in events]
        if want != have:
            ok, detail = True, detail + '; port events %r vs reference %r' % (have, want)
    return ok, detail


def _cmp_real(case, got, memory, mem, exp, post, fmask, default=0):
    cmio = str(case.get('cls')).startswith('CMIOSimulator')
    bad = []
    for i in range(30):
        if i == 29 and cmio:
            continue
        g, e = got[i], exp[i]
        if i == 1:
            if (g ^ e) & fmask:
                bad.append('F=%#x ref %#x (mask %#x)' % (g, e, fmask))
        elif i == 25 and cmio:
            if g < e:
                bad.append('T=%d < ref %d' % (g, e))
        elif g != e:
            bad.append('%s=%r ref %r' % (sh.REG_NAMES[i], g, e))
        if not isinstance(g, int) or not 0 <= g <= sh.REG_RANGES[i]:
            bad.append('%s=%r out of range' % (sh.REG_NAMES[i], g))
    for a in range(65536):
        e = post.get(a, mem.get(a, default))
        if memory[a] != e:
            bad.append('mem[%d]=%r ref %r' % (a, memory[a], e))
            if len(bad) > 8:
                break
    return bool(bad), '; '.join(bad[:6]) or 'real code agrees with the reference on this input'


# ---------------------------------------------------------------------------
def main():
    args = harness.parse_args(PROP)
    if args.replay:
        ok, detail = replay(harness.load_case(args.replay))
        print(('REPRODUCED: ' if ok else 'not reproduced: ') + detail)
        return 1 if ok else 0
    slots = z80ref.all_slots()
    items = [('Simulator', '48K', False) + s for s in slots]
    items += [('Simulator', '48K', True) + s for s in slots if s in IO_SLOTS]
    items += [('interrupt', 'Simulator', '48K')]
    items += [('table', s[0]) for s in table_specs()]
    # the contended simulator's closures are separate hand-written code: quick runs them with contend() replaced by a recorder
    # (their non-timing effects and T >= plain T), thorough with the real contend as well
    items += [('CMIOSimulator-rec', '48K', False) + s for s in slots]
    items += [('CMIOSimulator-rec', '48K', True) + s for s in slots if s in IO_SLOTS]
    items += [('interrupt', 'CMIOSimulator', '48K')]
    if args.tier == 'thorough':
        items += [('CMIOSimulator', '48K', False) + s for s in slots]
        items += [('CMIOSimulator', '48K', True) + s for s in slots if s in IO_SLOTS]
    if args.only:
        items = [i for i in items if args.only in harness.item_name(i)]
    # table translation is validated (every entry, concrete) once in the parent
    t = time.time()
    import skoolkit.simtables as st
    import skoolkit.simulator as sm
    import symtables
    tabs = symtables.load_tables(os.path.join(bootstrap.REPO, 'skoolkit/simtables.py'))
    n1, bad1 = symtables.validate(tabs, st)
    simtabs = symtables.load_tables(os.path.join(bootstrap.REPO, 'skoolkit/simulator.py'), names={'JR_OFFSETS', 'OFFSETS', 'R1', 'R2'})
    n2, bad2 = symtables.validate(simtabs, sm)
    rep = harness.Report(
        PROP, args,
        functions=['skoolkit.simulator.Simulator.* closure factories via create_opcodes (all 7 dispatch tables)',
                   'skoolkit.simulator.Simulator.accept_interrupt', 'skoolkit.simtables (all tables, as formulas derived from the source)',
                   'skoolkit.simulator.R1/R2/OFFSETS/JR_OFFSETS'] + ['skoolkit.cmiosimulator.CMIOSimulator.* closures (contend() recorded in quick, real in thorough)'],
        bounds={'instructions_per_obligation': 1, 'state': 'all 30 register slots and all 65536 memory cells symbolic, constrained only by the state invariant',
                'slots': '1786 instruction slots = 1792 table slots minus the 6 prefix dispatchers, which every prefixed slot runs through',
                'repeating block instructions': 'one iteration per step', 'outside': 'instruction sequences (by induction over single steps with C08), '
                'undocumented flag bits 5 and 3, the C implementation (C06), fast_djnz/fast_ldir shortcuts'},
        assumptions=['state invariant: 8-bit registers 0..255; SP, PC, MEMPTR 0..65535; registers[13] == 0; IFF, HALT in {0,1}; IM in {0,1,2}; 0 <= T < 2^32; memory cells 0..255']
        + z80ref.CONVENTIONS + ['tracer.read_port returns a byte 0..255'],
        stubs=['port tracer: proxy that records events and returns a fresh symbolic byte', 'lookup tables replaced by formulas derived from their defining generator expressions '
               '(translation validated against every entry of the imported tables: %d entries, %d mismatches)' % (n1 + n2, len(bad1) + len(bad2))],
        rule='one work item per (simulator class, machine, tracer?, dispatch slot); each feasible path of the real closure is one case; '
             'a path is non-trivial when its path condition leaves the pre-state symbolic (always, here) and its obligation was discharged',
        explanation='Bounded symbolic verification: each real instruction closure is executed on symbolic registers/memory (z3 bit-vectors/arrays); '
                    'per path one SMT query decides post-state == reference(pre-state); unsat for all values = holds for every state within the bound (one instruction).')
    if bad1 or bad2:
        rep.harness_errors.append('table translation mismatch: %r' % (bad1 + bad2)[:3])
    rep.extra['table_entries_validated'] = n1 + n2
    rep.extra['table_validation_s'] = round(time.time() - t, 1)
    for r in harness.pmap(work, items, args.jobs, init=init_worker, seed=args.seed):
        rep.add(r)
    # vacuity: every item must have explored at least one path
    if rep.paths < rep.items:
        rep.vacuity.append('some work items explored no path')
    return rep.finish(replay_in_subprocess=os.path.abspath(__file__))


if __name__ == '__main__':
    sys.exit(main())
