#!/venv/bin/python
"""C04: skool2asm / skool2bin agreement - the base/case conversion kernel.

skool2asm's -D/-H and -l/-u options rewrite every operation with InstructionUtility.convert (regex-driven replacement of the
numbers inside operands).  For a corpus of instruction and DEFB/DEFM/DEFS/DEFW templates whose numeric operands are symbolic
numerals spelled in decimal, $hex, %binary or as a character, the real convert() is applied for every target (decimal or hex,
lower/upper/unchanged case) and the real assembler assembles both the original and the converted text: z3 decides that the
bytes are identical for every operand value (so the converted listing assembles to what skool2bin writes).
"""
import os
import re
import sys

sys.path.insert(0, os.path.join(os.path.dirname(os.path.abspath(__file__)), '..', 'lib'))
import bootstrap  # noqa
import z3
import harness
import numerals
from symx import Stats, HarnessError, Inconclusive, SymInt, SymBool, bv, W, explore, sym_int, Path, rng

PROP = 'C04'
ADDR = 40000

TEMPLATES = [
    'LD A,{b}', 'LD B,{b}', 'LD (HL),{b}', 'LD HL,{w}', 'LD IX,{w}', 'LD ({w}),A', 'LD A,({w})', 'LD ({w}),HL', 'LD BC,({w})', 'LD SP,({w})', 'LD ({w}),IY',
    'LD (IX+{o}),{b}', 'LD (IY-{o}),{b}', 'LD A,(IX+{o})', 'LD (IY+{o}),C', 'LD IXh,{b}', 'LD IYl,{b}',
    'ADD A,{b}', 'ADC A,(IX-{o})', 'SUB {b}', 'AND {b}', 'XOR (IY+{o})', 'CP {b}', 'OR {b}', 'SBC A,{b}',
    'JP {w}', 'JP NZ,{w}', 'CALL {w}', 'CALL PE,{w}', 'JR {j}', 'DJNZ {j}', 'JR NC,{j}', 'RST {r}',
    'IN A,({b})', 'OUT ({b}),A', 'RLC (IX+{o})', 'BIT 3,(IY-{o})', 'SET 7,(IX+{o})', 'RES 0,(IX+{o}),B', 'BIT 2,A', 'IM 1',
    'INC (IX+{o})', 'DEC (IY-{o})', 'LD A,{b}+{b2}', 'LD HL,{w}-{b}', 'LD A,({w}+{b})',
    'DEFB {b}', 'DEFB {b},{b2}', 'DEFB {b},"a;b",{b2}', 'DEFM "x",{b}', 'DEFM {b},"{{",{b2}', 'DEFW {w}', 'DEFW {w},{b}', 'DEFS {n},{b}', 'DEFS {n}',
    'DEFB %{bin8},{b}', 'DEFB "1",{b}', 'DEFB {b}*2+1', 'DEFW {w}/2', 'DEFB "$5",{b}',
    # strings with escapes followed by strings with letters, character operands
    'DEFM "C:\\\\","Ab",{b}', 'DEFM "a\\"b","Cd",{b}', 'DEFB "\\\\",{b},"Ef"', 'LD A,"B"', 'CP "a"', 'DEFB "a"+{b2},"Q"', 'LD (IX+{o}),"z"', 'DEFM "Hi;$1f ab",{b}',
    # lower-case mnemonics with strings that contain register names and hex-like text
    'defm "SIXHIXLIYHIYL",{b}', 'defb "ixh",{b},"IYL"', 'defm "af\'",{b}', 'ld a,"H"', 'defw "A"+{b2},{w}',
]
SPELLINGS = ('dec', 'hex', 'hexl')
TARGETS = [(10, 0), (16, 0), (16, 1), (16, 2), (10, 1), (0, 2), (0, 1)]     # (base, case)


def init_worker():
    import skoolkit
    import skoolkit.z80 as z80
    import skoolkit.skoolparser as sp
    import skoolkit.skool2bin as s2b
    import skoolkit.skoolasm as sa
    import skoolkit.skoolutils as su
    import skoolkit.textutils as tu
    numerals.install(skoolkit, z80, sp, s2b, sa, su, tu, with_eval=True, with_chr=True)
    import shims
    shims.install_isinstance(z80, sp, skoolkit, s2b, sa, su, tu)


def new_res():
    return {'obligations': 0, 'discharged': 0, 'violations': [], 'inconclusive': [], 'samples': [], 'nontrivial': 0}


def finish(res, st):
    res.update(paths=st.paths, queries=st.queries, solver_s=st.solver_s, realisations=st.realisations)
    return res


def spell(v, kind, width):
    if kind == 'dec':
        return format(v, '')
    if kind == 'hex':
        return '$' + format(v, '04X' if width == 2 else '02X')
    if kind == 'hexl':
        return '$' + format(v, '04x' if width == 2 else '02x')
    raise ValueError(kind)


def build(tpl, kind, concrete=None):
    """-> (text, {name: value})"""
    vals = {}

    def v(name, lo, hi):
        if concrete is not None:
            return concrete[name]
        x = sym_int('v_' + name, lo, hi)
        vals[name] = x
        return x
    subs = {}
    if '{b}' in tpl:
        subs['b'] = spell(v('b', 0, 255 if '*' not in tpl and '+' not in tpl else 100), kind, 1)
    if '{b2}' in tpl:
        subs['b2'] = spell(v('b2', 0, 100), kind, 1)
    if '{w}' in tpl:
        subs['w'] = spell(v('w', 256 if '-' in tpl else 0, 65535 if '+' not in tpl else 60000), kind, 2)
    if '{o}' in tpl:
        subs['o'] = spell(v('o', 0, 127), kind, 1)
    if '{j}' in tpl:
        subs['j'] = spell(v('j', ADDR - 100, ADDR + 100), kind, 2)
    if '{r}' in tpl:
        subs['r'] = spell(v('r', 0, 0) + 56, kind, 1) if concrete is None else spell(56, kind, 1)
    if '{n}' in tpl:
        subs['n'] = spell(3, kind, 1)
    if '{bin8}' in tpl:
        subs['bin8'] = '10100101'
    return tpl.format(**subs), vals


class Obj:
    pass


PIPE_TEMPLATES = {
    # size-preserving substitutions and fixes of every kind; all referenced addresses are labelled
    'subs': dict(relocating=False, window=(39998, 40040), text="""@start
@org
; Routine
@label=START
c40000 LD A,{b0}         ; comment
@isub=LD HL,{w0}
 40002 LD HL,40000
@ssub=LD (IX+{o0}),{b1}
 40005 LD (IX+1),2
@ofix=JR 40000
 40009 JR 40002
@bfix=AND {b2}
 40011 AND 1
@rsub=LD BC,{w0}
 40013 LD BC,0
@rfix=CALL {w1}
*40016 CALL 40000
 40019 DJNZ 40016
 40021 RET

; Data
@label=DATA
b40022 DEFB {b0},{b1},"a;b"
 40027 DEFW {w1},40000
 40031 DEFM "hi",{b3}
 40034 DEFS 2,{b1}
 40036 DEFB 40022%256,{b2}/2+1
"""),
    # insertions before/after, overwriting and removal: later instructions move; every referenced address has a label
    'reloc': dict(relocating=True, window=(16384, 40040), wvalues=(16384, 39999, 40000, 40009, 40010, 40015, 40016, 40030), text="""@start
@org
@label=START
c40000 LD A,{b0}
@ssub=>LD B,{b1}
 40002 LD HL,40010
@rsub=|LD DE,{w0}
 40005 LD E,1
 40007 LD D,2
@label=NEXT
 40009 XOR A
@bfix=+INC A
*40010 JP 40000
@rsub=!40013-40014
 40013 NOP
 40014 NOP
@label=END
 40015 RET

@label=TBL
w40016 DEFW 40010,40015,{w0}
 40022 DEFB {b2}
"""),
    # insert-before and overwrite on the same instruction, the overwriting instruction longer than the original; append after an
    # overwrite; overwrite chains
    'reloc2': dict(relocating=True, window=(16384, 40040), wvalues=(16384, 39999, 40000, 40007, 40011, 40030), text="""@start
@org
@label=START
c40000 LD A,{b0}
@rsub=>INC A
@rsub=|LD BC,{w0}
 40002 LD C,1
 40004 LD B,A
 40005 XOR A
@label=MID
 40006 INC HL
@ssub=|LD DE,{w0}
@ssub=+LD A,{b1}
@label=NEXT
 40007 LD E,{b2}
 40009 LD D,0
@label=END
 40011 JP 40000
 40014 DEFW 40007,40011
"""),
    # @keep / @nowarn on an instruction that also has inserted instructions, while instructions move
    'keep': dict(relocating=True, window=(16384, 40040), wvalues=(16384, 39999, 40000, 40001, 40002, 40030), text="""@start
@org
@label=START
c40000 XOR A
@rsub=>INC A
@label=TWO
 40001 INC B
@keep
@rsub=+LD HL,40001
@label=THREE
 40002 INC C
@nowarn
@ssub=+LD DE,{w0}
 40003 LD A,{b0}
@keep=40001
@ssub=>LD BC,40001
 40005 LD HL,40002
 40008 RET
"""),
    # chains of overwriting instructions of unchanged total size (nothing moves: the parser snapshot is compared too)
    'chain': dict(relocating=False, window=(39998, 40030), text="""@start
@org
@label=START
c40000 LD A,{b0}
@ssub=|XOR A
@ssub=|INC A
 40002 NOP
 40003 NOP
@ofix=|LD B,{b1}
 40004 LD C,{b2}
@isub=|LD DE,{w0}
@isub=|LD A,{b1}
 40006 LD HL,0
 40009 LD A,0
 40011 RET
"""),
    # @if, block directives, a second @org with a gap, @equ
    'blocks': dict(relocating=False, window=(39998, 40030), text="""@start
@equ=PORT=254
@org
@label=MAIN
c40000 LD A,{b0}
@if({{asm}}>1)||ssub=LD B,{b1}||
 40002 LD B,0
@ofix-begin
 40004 LD C,{b2}
@ofix+else
 40004 LD C,{b3}
@ofix+end
@rsub-begin
 40006 LD DE,{w0}
@rsub+else
 40006 LD DE,40000
@rsub+end
 40009 JP 40002

@org=40020
@label=SECOND
c40020 LD HL,({w0})
@nowarn
 40023 LD ({w1}),A
@keep
 40026 LD BC,40000
 40029 RET
"""),
}
PIPE_DEFAULTS = dict(b0=7, b1=200, b2=32, b3=0, o0=5, w0=40016, w1=40000)
OPTS_QUICK = [(0, 0, 0), (10, 1, 1), (16, 2, 0), (16, 1, 1)]
OPTS_ALL = [(b, c, l) for b in (0, 10, 16) for c in (0, 1, 2) for l in (0, 1)]
GROUPS = {'bytes': ('b0', 'b1', 'b2', 'b3', 'o0'), 'w0': ('w0',), 'w1': ('w1',)}


def pipe_text(tname, group, spelling, concrete=None):
    t = PIPE_TEMPLATES[tname]
    vals = {}
    subs = {}
    for k, dv in PIPE_DEFAULTS.items():
        if ('{%s}' % k) not in t['text']:
            continue
        width = 2 if k[0] == 'w' else 1
        if concrete is not None:
            v = concrete.get(k, dv)
        elif k in GROUPS[group]:
            if k[0] == 'w':
                v = sym_int('v_' + k, *t['window'])
                if 'wvalues' in t:
                    # instructions move in this template: only labelled addresses (and addresses outside the code) can be referred to
                    Path.cur.assume(z3.Or(*[v.e == x for x in t['wvalues']]))
            elif k[0] == 'o':
                v = sym_int('v_' + k, 0, 127)
            else:
                v = sym_int('v_' + k, 0, 255)
            vals[k] = v
        else:
            v = dv
        subs[k] = spell(v, spelling, width)
    return t['text'].format(**subs), vals


def run_pipes(pipe, text, am, fm, opts, relocating):
    """-> (BinWriter, [(opt, image, parser)])"""
    import asmpipe
    import skoolkit.z80 as z80
    from skoolkit import get_int_param
    bw = pipe.skool2bin(text, am, fm)
    asm = z80.Assembler()
    outs = []
    for base, case, cl in opts:
        lines, parser = pipe.skool2asm(text, am, fm, base, case, cl)
        image, placed = asmpipe.assemble_listing(lines, asm, get_int_param)
        outs.append(((base, case, cl), image, parser, lines))
    return bw, outs


def pipe_diffs(bw, outs, relocating):
    """-> [(description, lhs, rhs)] pairs that must be equal"""
    pairs = []
    lo, hi = bw.base_address, bw.end_address
    for opt, image, parser, lines in outs:
        for a in range(lo, hi):
            if a in image:
                pairs.append(('asm options base=%d case=%d labels=%d: byte at %d' % (opt + (a,)), image[a], bw.snapshot[a]))
            elif not (isinstance(bw.snapshot[a], int) and bw.snapshot[a] == 0):
                pairs.append(('asm options base=%d case=%d labels=%d: nothing assembled at %d' % (opt + (a,)), None, bw.snapshot[a]))
        for a in image:
            if not lo <= a < hi:
                pairs.append(('asm options base=%d case=%d labels=%d: listing assembles a byte at %d, outside the skool2bin image %d-%d' % (opt + (a, lo, hi)), None, 0))
        if not relocating:
            for a in range(lo, hi):
                pairs.append(('parser snapshot (what #PEEK reads), options base=%d case=%d labels=%d: byte at %d' % (opt + (a,)), parser.snapshot[a], bw.snapshot[a]))
    return pairs


def check_pipe(item):
    _, tname, am, fm, group, spelling, tier = item
    st = Stats()
    res = new_res()
    import asmpipe
    t = PIPE_TEMPLATES[tname]
    opts = OPTS_QUICK if tier == 'quick' else OPTS_ALL
    name = 'pipeline %s asm_mode=%d fix_mode=%d symbolic=%s spelled %s' % (tname, am, fm, group, spelling)
    pipe = asmpipe.Pipe()

    def fn(path):
        text, vals = pipe_text(tname, group, spelling)
        bw, outs = run_pipes(pipe, text, am, fm, opts, t['relocating'])
        return vals, bw, outs

    def on(p, out):
        res['obligations'] += 1
        if isinstance(out, tuple) and out[0] == 'exception':
            r, mod = p.check(model=True)
            vv = {k: mod.eval(z3.BitVec('v_' + k, W), model_completion=True).as_long() for k in GROUPS[group] if ('{%s}' % k) in t['text']}
            res['violations'].append(dict(key='%s:exception:%s' % (name, type(out[1]).__name__), text='%s with %r raises %r' % (name, vv, out[1]),
                                          case=dict(kind='pipe', tname=tname, am=am, fm=fm, spelling=spelling, vals=vv)))
            return
        vals, bw, outs = out
        groups = {'asm': ([], []), 'snapshot': ([], [])}
        for desc, x, y in pipe_diffs(bw, outs, t['relocating']):
            diffs, names = groups['snapshot' if desc.startswith('parser snapshot') else 'asm']
            if x is None:
                diffs.append(z3.BoolVal(True))
            else:
                diffs.append(bv(x) != bv(y))
            names.append(desc)
        if p.data.get('radix_confusion'):
            groups['asm'][0].append(z3.BoolVal(True)); groups['asm'][1].append('a numeral is parsed in the wrong radix')
        failed = False
        # the two claims are decided separately (a finding about the snapshot must not hide a difference between the tools)
        for gname, (diffs, names) in groups.items():
            if not diffs:
                continue
            if gname == 'snapshot':
                res['obligations'] += 1
            r, mod, which = p.check_any(diffs, names)
            if r == 'unknown':
                res['inconclusive'].append(name); failed = True; continue
            if r == 'sat':
                vv = {k: mod.eval(x.e, model_completion=True).as_long() for k, x in vals.items()}
                key = '%s:%s' % (name, re.sub(r'\d+$', '', which[0])[:70])
                if gname == 'snapshot':
                    key = 'pipeline %s:parser snapshot' % tname          # one finding per template, whatever the mode
                res['violations'].append(dict(key=key, text='%s with %r: %s differs from skool2bin' % (name, vv, which[0]),
                                              case=dict(kind='pipe', tname=tname, am=am, fm=fm, spelling=spelling, vals=vv, group=gname)))
                failed = True
                continue
            if gname == 'snapshot':
                res['discharged'] += 1
        if failed:
            return
        diffs = groups['asm'][0] + groups['snapshot'][0]
        res['discharged'] += 1
        res['nontrivial'] += 1
        if not res['samples']:
            res['samples'].append({'item': name, 'compared bytes': len(diffs), 'image': '%d-%d' % (bw.base_address, bw.end_address), 'verdict': 'unsat'})

    try:
        explore(fn, stats=st, on_path=on, max_paths=1500)
    except Inconclusive as e:
        res['inconclusive'].append('%s: %s' % (name, e))
    finally:
        pipe.close()
    return finish(res, st)


def replay_pipe(case):
    import asmpipe
    t = PIPE_TEMPLATES[case['tname']]
    text, _ = pipe_text(case['tname'], 'bytes', case['spelling'], concrete=case['vals'])
    pipe = asmpipe.Pipe()
    try:
        try:
            bw, outs = run_pipes(pipe, text, case['am'], case['fm'], OPTS_ALL, t['relocating'])
        except Exception as e:
            return True, 'raises %r' % e
        grp = case.get('group')
        bad = [desc + ': %r vs skool2bin %r' % (x, y) for desc, x, y in pipe_diffs(bw, outs, t['relocating'])
               if x != y and (grp is None or (grp == 'snapshot') == desc.startswith('parser snapshot'))]
        return bool(bad), '; '.join(bad[:3]) or 'images agree'
    finally:
        pipe.close()


def check_convert(item):
    _, ti, kind = item
    tpl = TEMPLATES[ti]
    st = Stats()
    res = new_res()
    import skoolkit.z80 as z80
    import skoolkit.skoolparser as sp
    asm = z80.Assembler()
    util = sp.InstructionUtility()
    name = 'convert %r spelled %s' % (tpl, kind)

    def asm_(text):
        try:
            return asm._assemble(text, ADDR)
        except (ValueError, KeyError, IndexError, TypeError) as e:
            return ('error', e)

    def fn(path):
        text, vals = build(tpl, kind)
        b0 = asm_(text)
        outs = []
        for base, case in TARGETS:
            ins = Obj(); ins.operation = text
            entry = Obj(); entry.instructions = [ins]
            util.convert([entry], base, case)
            outs.append(((base, case), ins.operation, asm_(ins.operation)))
        return text, vals, b0, outs

    def on(p, out):
        res['obligations'] += 1
        if isinstance(out, tuple) and out[0] == 'exception':
            res['violations'].append(dict(key='%s:exception' % name, text='%s raises %r' % (name, out[1]), case=dict(kind='convert', ti=ti, spelling=kind)))
            return
        text, vals, b0, outs = out
        if b0 is None or (isinstance(b0, tuple) and b0 and b0[0] == 'error'):
            # the original does not assemble for these values (e.g. a relative jump out of range): nothing to preserve
            res['discharged'] += 1
            return
        diffs, names = [], []
        for target, conv, b1 in outs:
            if b1 is None or (isinstance(b1, tuple) and b1 and b1[0] == 'error') or len(b1) != len(b0):
                diffs.append(z3.BoolVal(True)); names.append('target base=%d case=%d: %r no longer assembles to %d bytes' % (target[0], target[1], numerals.skeleton(conv), len(b0)))
            else:
                for x, y in zip(b0, b1):
                    diffs.append(bv(x) != bv(y)); names.append('target base=%d case=%d: %r assembles to different bytes' % (target[0], target[1], numerals.skeleton(conv)))
        if p.data.get('radix_confusion'):
            diffs.append(z3.BoolVal(True)); names.append('a numeral is parsed in the wrong radix')
        r, mod, which = p.check_any(diffs, names)
        if r == 'unknown':
            res['inconclusive'].append(name); return
        if r == 'sat':
            vv = {k: mod.eval(x.e, model_completion=True).as_long() for k, x in vals.items()}
            res['violations'].append(dict(key='%s:%s' % (name, which[0][:60]), text='%s with %r: %s' % (name, vv, which[0]), case=dict(kind='convert', ti=ti, spelling=kind, vals=vv)))
            return
        res['discharged'] += 1
        res['nontrivial'] += 1
        if not res['samples']:
            res['samples'].append({'item': name, 'original': text, 'converted': [c for t, c, b in outs][:3], 'verdict': 'unsat'})

    try:
        explore(fn, stats=st, on_path=on, max_paths=20000)
    except Inconclusive as e:
        res['inconclusive'].append('%s: %s' % (name, e))
    return finish(res, st)


def work(item):
    return check_pipe(item) if item[0] == 'pipe' else check_convert(item)


def replay(case):
    import skoolkit.z80 as z80
    import skoolkit.skoolparser as sp
    if case.get('kind') == 'pipe':
        return replay_pipe(case)
    if 'vals' not in case:
        return False, 'no input'
    tpl = TEMPLATES[case['ti']]
    conc = dict(case['vals'])
    for k in ('b', 'b2', 'w', 'o', 'j'):
        conc.setdefault(k, 1)
    text, _ = build(tpl, case['spelling'], concrete=conc)
    asm = z80.Assembler()
    util = sp.InstructionUtility()
    b0 = asm.assemble(text, ADDR)
    if not b0:
        return False, 'original %r does not assemble' % text
    bad = []
    for base, cs in TARGETS:
        ins = Obj(); ins.operation = text
        entry = Obj(); entry.instructions = [ins]
        util.convert([entry], base, cs)
        b1 = asm.assemble(ins.operation, ADDR)
        if tuple(b1 or ()) != tuple(b0):
            bad.append('base=%d case=%d: %r -> %r assembles to %r, original %r' % (base, cs, text, ins.operation, list(b1 or ()), list(b0)))
    return bool(bad), '; '.join(bad[:3]) or 'converted text assembles to the same bytes'


def main():
    args = harness.parse_args(PROP)
    if args.replay:
        ok, detail = replay(harness.load_case(args.replay))
        print(('REPRODUCED: ' if ok else 'not reproduced: ') + detail)
        return 1 if ok else 0
    items = [('convert', ti, k) for ti in range(len(TEMPLATES)) for k in SPELLINGS]
    for tname, t in PIPE_TEMPLATES.items():
        for am in (1, 2, 3):
            for fm in (0, 1, 2, 3):
                for group in GROUPS:
                    if not any(('{%s}' % k) in t['text'] for k in GROUPS[group]):
                        continue
                    for spelling in (('dec',) if args.tier == 'quick' else ('dec', 'hex')):
                        items.append(('pipe', tname, am, fm, group, spelling, args.tier))
    if args.only:
        items = [i for i in items if args.only in harness.item_name(i) or (i[0] == 'convert' and args.only in TEMPLATES[i[1]])]
    rep = harness.Report(
        PROP, args,
        functions=['skoolkit.skoolparser.InstructionUtility.convert / _convert_base / _convert_case', 'skoolkit.skoolparser._replace_nums', 'skoolkit.z80.Assembler._assemble / convert_case / split_operation'],
        bounds={'templates': '%d instruction and DEF* templates (every operand position the disassembler emits, index offsets, relative jumps, arithmetic expressions, strings containing digits, $ and ;)' % len(TEMPLATES),
                'operands': 'symbolic over their full ranges, spelled in decimal, $HEX and $hex', 'targets': '%r (base, case)' % (TARGETS,),
                'outside': 'label substitution, @*sub/@*fix handling in skoolparser.Mode vs skool2bin.BinWriter, @org/@equ/@if, #PEEK and the macro-visible snapshot: structural, no symbolic dimension'},
        assumptions=['numeral tokens abstract format()/int()'], stubs=['int, eval, chr, ord, isinstance shadowed in skoolkit, z80, skoolparser'],
        rule='one case per feasible path per (template, spelling); all targets checked on each',
        explanation='The regex-driven number rewriting is executed on texts whose numbers are symbolic numerals; byte equality of original and converted text under the real assembler is decided by z3.')
    for r in harness.pmap(work, items, args.jobs, init=init_worker, seed=args.seed):
        rep.add(r)
    if rep.paths < rep.items:
        rep.vacuity.append('some work items explored no path')
    return rep.finish(replay_in_subprocess=os.path.abspath(__file__))


if __name__ == '__main__':
    sys.exit(main())
