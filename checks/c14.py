#!/venv/bin/python
"""C14: sna2ctl always emits a complete, ordered, non-overlapping control file (short windows).

snactl.generate_ctls (both generators) is run on short address ranges whose last bytes are symbolic.  The decoder's tables
are keyed by byte values, so opcode bytes are realised by forking over the solver's models (this part is enumeration in
all but name, and the evidence says so); operand bytes that do not select table entries stay symbolic.  On every path: the
directives start at `start`, strictly increase, end with 'i' at `end`, and every address of the code map lies in a 'c' block.
"""
import os
import sys
import tempfile

sys.path.insert(0, os.path.join(os.path.dirname(os.path.abspath(__file__)), '..', 'lib'))
import bootstrap  # noqa
import z3
import harness
from symx import Stats, HarnessError, Inconclusive, SymInt, SymBool, bv, W, explore, sym_int, Path, rng

PROP = 'C14'
START = 32768
# byte values the symbolic positions range over: terminal instructions, jumps/calls, prefixes, multi-byte loads, NOP, text
VALUES = (0x00, 0x01, 0x03, 0x18, 0x20, 0x21, 0x3E, 0x41, 0x76, 0xC3, 0xC9, 0xCB, 0xCD, 0xDD, 0xE9, 0xED, 0xFD, 0xFF)
PREFIXES = {
    'ld':   [0x3E, 0x01],
    'ret':  [0xC9],
    'call': [0xCD, 0x05, 0x80],
    'text': [0x48, 0x69],
    'nop':  [0x00, 0x00],
    'dd':   [0xDD, 0x21],
    'jr':   [0x18, 0x00, 0x3E],
    'skip': [0x28, 0x01, 0x3E],     # JR Z,+1 over the opcode byte of a two-byte instruction (the "LD A,n" skip trick)
    'skip2': [0x28, 0x01, 0x3E, 0x06],
}


class Cfg:
    handle_rst = False
    text_chars = 'abcdefghijklmnopqrstuvwxyzABCDEFGHIJKLMNOPQRSTUVWXYZ '
    text_min_length_code = 3
    text_min_length_data = 2
    words = ()


def init_worker():
    import numerals
    numerals.install()       # decode() renders DEFB operands with str()
    import shims
    import skoolkit.snactl as sc
    import skoolkit.opcodes as oc
    shims.install_isinstance(sc, oc)

    class _Quiet:
        stderr = type('E', (), {'write': staticmethod(lambda *a: None), 'flush': staticmethod(lambda: None)})()

        def __getattr__(self, k):
            return getattr(sys, k)
    sc.sys = _Quiet()       # read_map reports progress on stderr


def new_res():
    return {'obligations': 0, 'discharged': 0, 'violations': [], 'inconclusive': [], 'samples': [], 'nontrivial': 0}


def finish(res, st):
    res.update(paths=st.paths, queries=st.queries, solver_s=st.solver_s, realisations=st.realisations)
    return res


def check_window(item):
    """('win', prefix key, nsym, after, map addresses (offsets) or None)"""
    _, pkey, nsym, after, cmap = item[:5]
    pin = item[5] if len(item) > 5 else None          # first symbolic byte fixed (splits a large window into parallel items)
    st = Stats()
    res = new_res()
    import skoolkit.snactl as sc
    prefix = PREFIXES[pkey]
    n = len(prefix) + nsym
    end = START + n
    name = 'generate_ctls prefix=%s + %d symbolic byte(s)%s | %d byte(s) after end, code map %r' % (pkey, nsym, '' if pin is None else ' (first = %d)' % pin, after, cmap)
    d = tempfile.mkdtemp(prefix='skverif_c14_')
    mapfile = None
    if cmap is not None:
        mapfile = os.path.join(d, 'map.log')
        open(mapfile, 'w').write(''.join('$%04X\n' % (START + o) for o in cmap))

    def fn(path):
        snap = [0] * 65536
        for k, b in enumerate(prefix):
            snap[START + k] = b
        syms = []
        for k in range(nsym + after):
            v = sym_int('s%d' % k, 0, 255)
            path.assume(z3.Or(*[v.e == x for x in VALUES]))
            if k == 0 and pin is not None:
                path.assume(v.e == pin)
            snap[START + len(prefix) + k] = v
            syms.append(v)
        ctls = sc.generate_ctls(snap, START, end, mapfile, Cfg())
        return syms, ctls

    def on(p, out):
        res['obligations'] += 1
        vals = lambda: [p.realise(v.e, 'report') for v in (out[0] if not (isinstance(out, tuple) and out[0] == 'exception') else [])]
        if isinstance(out, tuple) and out[0] == 'exception':
            r, mod = p.check(model=True)
            sv = [mod.eval(z3.BitVec('s%d' % k, W), model_completion=True).as_long() for k in range(nsym + after)]
            res['violations'].append(dict(key='%s:exception:%s' % (name, type(out[1]).__name__), text='%s with bytes %r raises %r' % (name, sv, out[1]),
                                          case=dict(kind='win', pkey=pkey, nsym=nsym, after=after, cmap=cmap, vals=sv)))
            return
        syms, ctls = out
        bad = []
        keys = sorted(ctls)
        if not keys or keys[0] != START:
            bad.append('first directive at %r, not at the start address %d' % (keys[:1], START))
        if not keys or keys[-1] != end or ctls[keys[-1]] != 'i':
            bad.append('no terminating directive at the end address %d (directives: %r)' % (end, sorted(ctls.items())))
        if any(not isinstance(k, int) for k in keys):
            bad.append('non-integer directive address')
        if any(k < START or k > end for k in keys):
            bad.append('directive outside [start, end]')
        for v in ctls.values():
            if v not in tuple('bcgistuw'):
                bad.append('unknown directive type %r' % (v,))
        if cmap is not None and not bad:
            for o in cmap:
                a = START + o
                if a >= end:
                    continue          # a map entry outside the range says nothing about the range
                blk = max(k for k in keys if k <= a)
                if ctls[blk] != 'c':
                    bad.append('code map address %d lies in a %r block' % (a, ctls[blk]))
        if bad:
            sv = [p.realise(v.e, 'report') for v in syms]
            res['violations'].append(dict(key='%s:%s' % (name, bad[0][:40]), text='%s with bytes %r: %s' % (name, sv, '; '.join(bad)),
                                          case=dict(kind='win', pkey=pkey, nsym=nsym, after=after, cmap=cmap, vals=sv)))
            return
        res['discharged'] += 1
        res['nontrivial'] += 1
        if not res['samples']:
            res['samples'].append({'item': name, 'directives': sorted(ctls.items()), 'verdict': 'holds on path'})

    try:
        explore(fn, stats=st, on_path=on, max_paths=50000)
    except Inconclusive as e:
        res['inconclusive'].append('%s: %s' % (name, e))
    finally:
        import shutil
        shutil.rmtree(d, ignore_errors=True)
    return finish(res, st)


def work(item):
    return check_window(item)


def replay(case):
    import skoolkit.snactl as sc
    prefix = PREFIXES[case['pkey']]
    n = len(prefix) + case['nsym']
    end = START + n
    snap = [0] * 65536
    snap[START:START + len(prefix)] = prefix
    for k, v in enumerate(case['vals']):
        snap[START + len(prefix) + k] = v
    d = tempfile.mkdtemp(prefix='skverif_c14_')
    try:
        mapfile = None
        if case['cmap'] is not None:
            mapfile = os.path.join(d, 'map.log')
            open(mapfile, 'w').write(''.join('$%04X\n' % (START + o) for o in case['cmap']))
        try:
            ctls = sc.generate_ctls(snap, START, end, mapfile, Cfg())
        except Exception as e:
            return True, 'generate_ctls raises %r' % e
        keys = sorted(ctls)
        bad = []
        if keys[0] != START:
            bad.append('first directive at %d' % keys[0])
        if keys[-1] != end or ctls[keys[-1]] != 'i':
            bad.append('no terminating directive at %d: %r' % (end, sorted(ctls.items())))
        if case['cmap'] is not None and not bad:
            for o in case['cmap']:
                if START + o >= end:
                    continue
                blk = max(k for k in keys if k <= START + o)
                if ctls[blk] != 'c':
                    bad.append('code map address %d lies in a %r block' % (START + o, ctls[blk]))
        return bool(bad), '; '.join(bad) or 'directives tile the range'
    finally:
        import shutil
        shutil.rmtree(d, ignore_errors=True)


def main():
    args = harness.parse_args(PROP)
    if args.replay:
        ok, detail = replay(harness.load_case(args.replay))
        print(('REPRODUCED: ' if ok else 'not reproduced: ') + detail)
        return 1 if ok else 0
    items = []
    for pkey, prefix in PREFIXES.items():
        for nsym in ((1, 2) if args.tier == 'quick' else (1, 2, 3)):
            for after in (0, 1, 2):
                if nsym + after > (3 if args.tier == 'quick' else 4):
                    continue
                maps = [None, (0,)]
                if len(prefix) >= 2:
                    maps.append((0, len(prefix)))
                if after == 0 and nsym == 1:
                    maps.append((0, len(prefix) + nsym))        # the end address itself is in the map (executed code follows the range)
                for cmap in maps:
                    items.append(('win', pkey, nsym, after, cmap))
    # executed code continuing after an instruction that a misaligned decode (from the skipped byte) sees differently
    for pin in VALUES:
        items.append(('win', 'skip2', 3, 0, (0, 3, 5, 6), pin))
        items.append(('win', 'skip2', 3, 0, (0, 3, 5), pin))
    items = [i for i in items if not (i[1] == 'skip2' and i[4] in (None, (0,), (0, 4)))]
    if args.only:
        items = [i for i in items if args.only in harness.item_name(i)]
    rep = harness.Report(
        PROP, args,
        functions=['skoolkit.snactl.generate_ctls / _generate_ctls_without_code_map / _generate_ctls_with_code_map / _find_terminal_instruction / _get_blocks / _get_text_blocks / read_map', 'skoolkit.opcodes.decode'],
        bounds={'window': '%d fixed code-like prefixes followed by 1-%d bytes ranging over %d representative values each, plus 0-2 such bytes beyond the end address (an instruction may straddle it)' % (len(PREFIXES), 2 if args.tier == 'quick' else 3, len(VALUES)),
                'code maps': 'none, {start}, {start, first byte after the prefix}', 'outside': 'termination in general, text heuristics on longer data, -C/-r sub-block directives and their agreement with sna2skool, large images, other map formats'},
        assumptions=['byte values are realised (the decoder tables are dictionaries keyed by byte value): this check is enumeration driven by the solver, not a symbolic proof over all byte values'],
        stubs=['isinstance shadowed in snactl/opcodes'],
        rule='one case per realised byte combination per window shape',
        explanation='Solver-driven enumeration of short windows through the real control-file generators; the tiling properties are checked on every path.')
    for r in harness.pmap(work, items, args.jobs, init=init_worker, seed=args.seed):
        rep.add(r)
    if rep.paths < rep.items:
        rep.vacuity.append('some work items explored no path')
    return rep.finish(replay_in_subprocess=os.path.abspath(__file__))


if __name__ == '__main__':
    sys.exit(main())
