#!/venv/bin/python
"""C18: annotations survive conversion intact; line width is respected (skool2asm).

The real SkoolParser + AsmWriter convert a corpus of skool entries (long words, multi-instruction comment groups, register
sections, paragraphs, end comments) with a *symbolic* line width (40..200), instruction width (5..40) or minimum comment
width (1..40).  On every path (= set of widths that wrap identically): the words emitted are exactly the source words, in
order, each once, attached to the same entry; every instruction appears once with its operation; and for every output
line `len(line) <= line_width` is valid over the path's width set (z3) unless the line holds a single unbreakable item
that cannot fit, in which case a warning was emitted for instruction lines.
"""
import os
import sys
import tempfile

sys.path.insert(0, os.path.join(os.path.dirname(os.path.abspath(__file__)), '..', 'lib'))
import bootstrap  # noqa
import z3
import harness
from symx import Stats, HarnessError, Inconclusive, SymInt, SymBool, bv, W, explore, sym_int, Path, rng

PROP = 'C18'

LONG = 'averyveryveryveryveryveryveryveryveryverylongwordthatwillnotfitanywhereatallonnarrowlines'
CORPUS = [
    dict(title='Routine at 32768', desc=['This is a description of the routine that is quite long so that it needs to be wrapped over several lines when the width is small.',
                                         'A second paragraph, shorter.'],
         regs=[('A', 'Some register with a long explanation of what it holds on entry to the routine'), ('HL', 'Address of the thing')],
         instrs=[('LD A,1', 'This comment spans two instructions and is long enough to need wrapping at narrow widths', 2), ('LD B,2', None, 0),
                 ('RET', 'Done %s ok' % LONG, 1)],
         end=['The end comment of this routine, also long enough to wrap when the line is narrow enough to require it.']),
    dict(title='Data block with a title that is itself rather long and may need wrapping on very narrow output lines', desc=[],
         regs=[],
         instrs=[('DEFB 1,2,3,4,5,6,7,8,9,10,11,12,13,14,15,16,17,18,19,20', 'A statement wider than the instruction field', 1),
                 ('DEFM "a string operand with spaces ; and a semicolon"', 'Comment after a quoted operand', 1),
                 ('DEFW 1', 'x', 1), ('DEFW 2', 'Three instructions share this comment which has to be wrapped over their rows and possibly beyond them on narrow lines', 3),
                 ('DEFW 3', None, 0), ('DEFW 4', None, 0)],
         end=[]),
    dict(title='Short', desc=['One %s two' % LONG], regs=[('BC', LONG)],
         instrs=[('XOR A', '', 1), ('LD (IX+5),%10101010', 'b', 1), ('JP 32768', 'A comment that exactly fills or overflows the available width depending on it', 1)],
         end=['e']),
    # comment groups whose last instruction has the widest operation (wider than the instruction field)
    dict(title='Groups', desc=[], regs=[],
         instrs=[('XOR A', 'A group of three instructions of which the last is by far the widest, so the comment column is set by it', 3),
                 ('INC A', None, 0), ('DEFM "abcdefghijklmnopqrstuvwxyz0123"', None, 0),
                 ('LD A,1', 'Another group whose comment is long enough that it has to be wrapped over several lines of output', 2),
                 ('DEFB 1,2,3,4,5,6,7,8,9,10,11,12,13', None, 0), ('RET', 'Done', 1)],
         end=[]),
    # instruction comments with continuation lines, the first of which is a brace group closed on its continuation line
    dict(title='Continuation lines', desc=[], regs=[],
         instrs=[('DEFB 0', ('{First line of a group of one', 'which ends here}'), 1), ('DEFB 1', 'Second', 1),
                 ('DEFB 2', ('Third comment', 'continued on the next line'), 1), ('DEFB 3', 'Last', 1)],
         end=[]),
]


def skool_text(c, address=32768):
    lines = ['@start', '; ' + c['title'], ';']
    if c['desc']:
        for k, para in enumerate(c['desc']):
            if k:
                lines.append('; .')
            lines.append('; ' + para)
    else:
        lines.append('; .')
    lines.append(';')
    if c['regs']:
        for r, d in c['regs']:
            lines.append('; %s %s' % (r, d))
    else:
        lines.append('; .')
    a = address
    first = True
    group = 0
    for op, comment, span in c['instrs']:
        ctl = 'c' if first else ' '
        first = False
        if span > 1:
            text = '{' + comment
            group = span - 1
        elif span == 0:
            group -= 1
            text = '}' if group == 0 else ''
        else:
            text = comment
        cont = ()
        if isinstance(text, tuple):
            text, cont = text[0], text[1:]
        lines.append('%s%05d %-22s ; %s' % (ctl, a, op, text))
        for t in cont:
            lines.append('%s ; %s' % (' ' * 29, t))
        a += 3
    for para in c['end']:
        lines.append('; ' + para)
    return '\n'.join(lines) + '\n'


def expected_words(c):
    words = c['title'].split()
    for para in c['desc']:
        words += para.split()
    for r, d in c['regs']:
        words += [r] + d.split()
    for op, comment, span in c['instrs']:
        if isinstance(comment, tuple):
            comment = ' '.join(comment).strip('{}')
        if comment:
            words += comment.split()
    for para in c['end']:
        words += para.split()
    return words


def init_worker():
    pass


def new_res():
    return {'obligations': 0, 'discharged': 0, 'violations': [], 'inconclusive': [], 'samples': [], 'nontrivial': 0}


def finish(res, st):
    res.update(paths=st.paths, queries=st.queries, solver_s=st.solver_s, realisations=st.realisations)
    return res


def parse_output(lines, ops):
    """-> (comment words in order, operations in order, [(line, is_instruction_line, comment_text)])"""
    words, found_ops, info = [], [], []
    for ln in lines:
        if ln.startswith(';'):
            t = ln[1:].strip()
            words += t.split()
            info.append((ln, False, t))
        elif ln.strip() == '' or ln.lstrip().startswith(('ORG', 'org')):
            info.append((ln, False, ''))
        else:
            body = ln.strip()
            op, comment = body, ''
            # split at the first ' ; ' outside quotes
            inq = False
            for i, ch in enumerate(body):
                if ch == '"':
                    inq = not inq
                elif ch == ';' and not inq and (i == 0 or body[i - 1] == ' '):
                    op, comment = body[:i].strip(), body[i + 1:].strip()
                    break
            if op:
                found_ops.append(op)
            words += comment.split()
            info.append((ln, True, comment))
    return words, found_ops, info


def check_asm(item):
    _, ci, param = item
    c = CORPUS[ci]
    st = Stats()
    res = new_res()
    import skoolkit.skoolasm as asmmod
    from skoolkit.skoolparser import SkoolParser
    from skoolkit.config import get_config
    name = 'skool2asm corpus[%d] symbolic %s' % (ci, param)
    d = tempfile.mkdtemp(prefix='skverif_c18_')
    f = os.path.join(d, 't.skool')
    open(f, 'w').write(skool_text(c))
    out, warns = [], []
    want_words = expected_words(c)
    want_ops = [op for op, _, _ in c['instrs']]

    def fn(path):
        del out[:]; del warns[:]
        asmmod.write_text = lambda s: out.extend(s.rstrip('\n').split('\n'))
        asmmod.warn = lambda s: warns.append(s)
        parser = SkoolParser(f, asm_mode=1)
        w = asmmod.AsmWriter(parser, {}, {}, get_config('skool2asm'))
        if param == 'line-width':
            w.line_width = sym_int('line_width', 40, 200)
        elif param == 'instruction-width':
            # the instruction width becomes a str.format() field width: it has to be concrete, so this parameter is enumerated
            # (realised value by value) rather than kept symbolic
            w.instr_width = path.realise(sym_int('instr_width', 5, 40).e, 'instruction-width')
        else:
            w.min_comment_width = sym_int('comment_width_min', 1, 40)
            w.line_width = 60
        w.desc_width = w._get_text_width('comment')
        w.table_writer.desc_width = w.desc_width
        w.write()
        path.data['mcw'] = w.min_comment_width
        return w.line_width, list(out), list(warns)

    def on(p, outv):
        res['obligations'] += 1
        if isinstance(outv, tuple) and outv[0] == 'exception':
            r, mod = p.check(model=True)
            v = {str(x): mod[x].as_long() for x in mod.decls()}
            res['violations'].append(dict(key='%s:exception' % name, text='%s with %r raises %r' % (name, v, outv[1]), case=dict(kind='asm', ci=ci, param=param, vals=v)))
            return
        lw, lines, wr = outv
        mcw = p.data.get('mcw', 10)
        words, ops, info = parse_output(lines, want_ops)
        bad = []
        if words != want_words:
            k = next((i for i, (a, b) in enumerate(zip(words, want_words)) if a != b), min(len(words), len(want_words)))
            bad.append('words differ from the source at position %d: got %r..., source %r...' % (k, words[k:k + 4], want_words[k:k + 4]))
        if ops != want_ops:
            bad.append('instructions emitted %r, source %r' % (ops, want_ops))
        diffs, names = [], []
        unwarned, unwarned_names = [], []
        for ln, is_ins, comment in info:
            n = len(ln)
            lo, hi = rng(lw)
            if n <= lo:
                continue
            toolong = bv(lw) < n
            if is_ins:
                # an instruction line may exceed the width only if the warning was emitted for it ...
                warned = any(ln in w_ for w_ in wr)
                if not warned:
                    diffs.append(toolong); names.append('instruction line of %d characters without a warning: %r' % (n, ln[:70]))
                # ... and only because something unbreakable does not fit: a single comment word, or an instruction field so
                # wide that fewer than comment-width-min columns are left for the comment
                if len(comment.split()) > 1:
                    col = ln.rindex(comment)
                    diffs.append(z3.And(toolong, bv(lw) - col >= bv(mcw))); names.append('instruction line of %d characters whose comment (%d words) could have been wrapped: %r' % (n, len(comment.split()), ln[:70]))
            else:
                if len(comment.split()) > 1:
                    # more than one word on an over-long comment line: unless the excess is a non-breakable prefix (register name)
                    first = comment.split()[0]
                    rest = comment[len(first):].strip()
                    if len(rest.split()) > 1 or not any(first == r for r, _ in c['regs']):
                        diffs.append(toolong); names.append('comment line of %d characters holding several words: %r' % (n, ln[:70]))
                if not any(ln in w_ for w_ in wr):
                    # the property asks for a warning whenever a line is longer than the width (decided separately: known finding)
                    unwarned.append(toolong); unwarned_names.append('comment line of %d characters without a warning: %r' % (n, ln[:70]))
        if bad:
            r, mod = p.check(model=True); which = bad
        else:
            r, mod, which = p.check_any(diffs, names)
        if r == 'unknown':
            res['inconclusive'].append(name); return
        if r == 'sat':
            v = {str(x): mod[x].as_long() for x in mod.decls() if hasattr(mod[x], 'as_long')}
            res['violations'].append(dict(key='%s:%s' % (name, which[0][:40]), text='%s with %r: %s' % (name, v, '; '.join(which[:3])), case=dict(kind='asm', ci=ci, param=param, vals=v)))
            return
        if unwarned:
            res['obligations'] += 1
            r2, mod2, which2 = p.check_any(unwarned, unwarned_names)
            if r2 == 'unknown':
                res['inconclusive'].append(name); return
            if r2 == 'sat':
                v = {str(x): mod2[x].as_long() for x in mod2.decls() if hasattr(mod2[x], 'as_long')}
                res['violations'].append(dict(key='skool2asm: comment line over the width without a warning', text='%s with %r: %s' % (name, v, which2[0]), case=dict(kind='asm', ci=ci, param=param, vals=v, warn_only=True)))
                return
            res['discharged'] += 1
        res['discharged'] += 1
        res['nontrivial'] += 1
        if len(res['samples']) < 1:
            res['samples'].append({'item': name, 'lines': len(lines), 'longest': max(len(x) for x in lines), 'warnings': len(wr), 'verdict': 'unsat for every width on this path'})

    try:
        explore(fn, stats=st, on_path=on, max_paths=5000)
    except Inconclusive as e:
        res['inconclusive'].append('%s: %s' % (name, e))
    finally:
        import shutil
        shutil.rmtree(d, ignore_errors=True)
    return finish(res, st)


# ---------------------------------------------------------------------------
LONGW = 'Pneumonoultramicroscopicsilicovolcanoconiosis-and-then-some-more-characters-to-make-it-wider'
SKOOL_CTLS = [
    dict(ctl="""c 32768 Routine with a title long enough to be wrapped when the requested line width is small enough for that
D 32768 First paragraph of the description, which runs on for a while so that it has to be wrapped on narrower lines.
D 32768 Second paragraph with %s inside.
R 32768 A Some input value described at length so that the register description needs more than one line
R 32768 BC Short
N 32768 Start comment that is also rather long and will need wrapping at most of the widths considered here.
C 32768,2 A comment on the first instruction that is long enough to need continuation lines in the skool file
M 32770,4 A comment spanning two instructions which together leave room for two lines only, so more lines follow them
C 32770,1
C 32771,3
N 32774 Mid-block comment.
C 32774,1 %s
E 32768 End comment of the routine, long enough to wrap as well when the line is narrow.
i 32775""" % (LONGW, LONGW), mem=[0x3E, 0x01, 0xAF, 0x21, 0x00, 0x80, 0xC9]),
    dict(ctl="""b 32768 Data
D 32768 Description.
B 32768,4,2 Two rows of two bytes each with a shared comment that has to be spread over both rows and then some more
T 32772,3 text
W 32775,2 {braces} inside a comment that is fairly long, long enough for at least two lines at width forty
i 32777""", mem=[1, 2, 3, 4, 65, 66, 67, 0x34, 0x12]),
    # a multi-instruction comment that itself ends with a closing brace (the group's closing brace is then written as ' }')
    dict(ctl="""c 32768 Routine
C 32768,2 Prepare the accumulator and the flags for the main loop then copy the result to the registers in {A and B}
C 32770,1 done
i 32771""", mem=[175, 71, 201]),
]


def skool_words(ctl):
    words = []
    for line in ctl.split('\n'):
        parts = line.split(None, 2)
        if line[0] in 'DNERM' or line[0].islower():
            text = parts[2] if len(parts) > 2 else ''
        elif line[0] in 'BCTWS':
            text = parts[2] if len(parts) > 2 else ''
        else:
            text = ''
        if line[0] == 'i':
            continue
        words += text.split()
    return words


def check_skool(item):
    """('skool', corpus index): sna2skool's SkoolWriter with a symbolic line width"""
    _, ci = item
    c = SKOOL_CTLS[ci]
    st = Stats()
    res = new_res()
    import ctlpipe
    name = 'sna2skool corpus[%d] symbolic line width' % ci
    pipe = ctlpipe.Pipe()
    import skoolkit.snaskool as ss
    import skoolkit.ctlparser as cp
    from skoolkit.config import get_config

    def fn(path):
        snap = [0] * 65536
        snap[32768:32768 + len(c['mem'])] = c['mem']
        parser = cp.CtlParser()
        parser.parse_ctls([pipe._file(c['ctl'] + '\n', 'ctl')], 32768, 32768 + len(c['mem']) + 1)
        o = ctlpipe.Opt()
        lw = sym_int('line_width', 40, 200)
        o.comments, o.line_width, o.base, o.case = False, lw, 10, 2
        cfg = get_config('sna2skool')
        cfg.update(ListRefs=0)
        out = []
        ss.write_line = out.append
        ss.SkoolWriter(snap, parser, o, cfg).write_skool()
        return lw, out

    def on(p, outv):
        res['obligations'] += 1
        if isinstance(outv, tuple) and outv[0] == 'exception':
            r, mod = p.check(model=True)
            v = {str(x): mod[x].as_long() for x in mod.decls() if hasattr(mod[x], 'as_long')}
            res['violations'].append(dict(key='%s:exception' % name, text='%s with %r raises %r' % (name, v, outv[1]), case=dict(kind='skool', ci=ci, vals=v)))
            return
        lw, lines = outv
        words, bad = [], []
        info = []
        grp = None
        for ln in lines:
            if ln.startswith(';'):
                t = ln[1:].strip()
                if t.startswith('. '):
                    t = t[2:]             # continuation line of a register description
                if t != '.':
                    words += t.split()
                info.append((ln, t))
            elif ln.strip() == '' or ln.startswith('i'):
                continue
            else:
                body = ln[7:] if ln[0] != ' ' or ln[1:6].strip() else ln.strip()
                if ';' in ln:
                    comment = ln[ln.index(';') + 1:].strip()
                else:
                    comment = ''
                comment = comment.strip()
                # a comment group is written as '{' ... '}' over the lines of its instructions: collect it until the braces balance
                if grp is not None:
                    grp.append(comment)
                    joined = ' '.join(grp)
                    if joined.count('{') <= joined.count('}'):
                        words += joined[1:joined.rindex('}')].split()
                        grp = None
                elif comment.startswith('{') and comment.count('{') > comment.count('}'):
                    grp = [comment]
                elif comment.startswith('{ ') and comment.endswith('}'):
                    words += comment[1:-1].split()         # protective braces round a comment that itself starts with a brace
                else:
                    words += comment.split()
                info.append((ln, comment))
        want = skool_words(c['ctl'])
        if words != want:
            k = next((i for i, (a, b) in enumerate(zip(words, want)) if a != b), min(len(words), len(want)))
            bad.append('words differ from the control file at position %d: got %r..., control file %r...' % (k, words[k:k + 4], want[k:k + 4]))
        diffs, names = [], []
        for ln, comment in info:
            n = len(ln)
            lo, hi = rng(lw)
            if n <= lo:
                continue
            if len(comment.split()) > 1:
                diffs.append(bv(lw) < n); names.append('line of %d characters holding several words: %r' % (n, ln[:70]))
        if bad:
            r, mod = p.check(model=True); which = bad
        else:
            r, mod, which = p.check_any(diffs, names)
        if r == 'unknown':
            res['inconclusive'].append(name); return
        if r == 'sat':
            v = {str(x): mod[x].as_long() for x in mod.decls() if hasattr(mod[x], 'as_long')}
            res['violations'].append(dict(key='%s:%s' % (name, which[0][:40]), text='%s with %r: %s' % (name, v, '; '.join(which[:3])), case=dict(kind='skool', ci=ci, vals=v)))
            return
        res['discharged'] += 1
        res['nontrivial'] += 1
        if len(res['samples']) < 1:
            res['samples'].append({'item': name, 'lines': len(lines), 'longest': max(len(x) for x in lines), 'verdict': 'unsat for every width on this path'})

    try:
        explore(fn, stats=st, on_path=on, max_paths=5000)
    except Inconclusive as e:
        res['inconclusive'].append('%s: %s' % (name, e))
    finally:
        pipe.close()
    return finish(res, st)


def replay_skool(case):
    import ctlpipe
    import skoolkit.snaskool as ss
    import skoolkit.ctlparser as cp
    from skoolkit.config import get_config
    c = SKOOL_CTLS[case['ci']]
    lw = (case.get('vals') or {}).get('line_width', 79)
    pipe = ctlpipe.Pipe()
    try:
        snap = [0] * 65536
        snap[32768:32768 + len(c['mem'])] = c['mem']
        parser = cp.CtlParser()
        parser.parse_ctls([pipe._file(c['ctl'] + '\n', 'ctl')], 32768, 32768 + len(c['mem']) + 1)
        o = ctlpipe.Opt()
        o.comments, o.line_width, o.base, o.case = False, lw, 10, 2
        cfg = get_config('sna2skool')
        cfg.update(ListRefs=0)
        out = []
        ss.write_line = out.append
        try:
            ss.SkoolWriter(snap, parser, o, cfg).write_skool()
        except Exception as e:
            return True, 'raises %r' % e
        bad = []
        for ln in out:
            comment = ln[ln.index(';') + 1:].strip() if ';' in ln else ''
            if len(ln) > lw and len(comment.split()) > 1:
                bad.append('line of %d > %d characters with several words: %r' % (len(ln), lw, ln[:70]))
        text = ' '.join(x[x.index(';') + 1:] if ';' in x else '' for x in out)
        for w in skool_words(c['ctl']):
            if w.strip('{}') and w.strip('{}') not in text:
                bad.append('word %r missing' % w); break
        return bool(bad), '; '.join(bad[:3]) or 'skool file respects the width and keeps every word'
    finally:
        pipe.close()


def work(item):
    return check_skool(item) if item[0] == 'skool' else check_asm(item)


def replay(case):
    if case.get('kind') == 'skool':
        return replay_skool(case)
    import io
    import contextlib
    import skoolkit.skoolasm as asmmod
    from skoolkit.skoolparser import SkoolParser
    from skoolkit.config import get_config
    c = CORPUS[case['ci']]
    v = case.get('vals') or {}
    d = tempfile.mkdtemp(prefix='skverif_c18_')
    try:
        f = os.path.join(d, 't.skool')
        open(f, 'w').write(skool_text(c))
        props = {}
        if 'line_width' in v:
            props['line-width'] = str(v['line_width'])
        if 'instr_width' in v:
            props['instruction-width'] = str(v['instr_width'])
        if 'comment_width_min' in v:
            props['comment-width-min'] = str(v['comment_width_min']); props['line-width'] = '60'
        out, warns = [], []
        asmmod.write_text = lambda s: out.extend(s.rstrip('\n').split('\n'))
        asmmod.warn = lambda s: warns.append(s)
        try:
            parser = SkoolParser(f, asm_mode=1)
            w = asmmod.AsmWriter(parser, props, {}, get_config('skool2asm'))
            w.write()
        except Exception as e:
            return True, 'raises %r' % e
        words, ops, info = parse_output(out, None)
        bad = []
        if words != expected_words(c):
            bad.append('words differ from the source')
        if ops != [op for op, _, _ in c['instrs']]:
            bad.append('instructions differ')
        lw = w.line_width
        for ln, is_ins, comment in info:
            if len(ln) > lw:
                if is_ins and not any(ln in x for x in warns):
                    bad.append('instruction line of %d > %d characters without a warning' % (len(ln), lw))
                if is_ins and len(comment.split()) > 1 and lw - ln.rindex(comment) >= w.min_comment_width:
                    bad.append('instruction line of %d > %d characters whose comment could have been wrapped: %r' % (len(ln), lw, ln[:60]))
                if not is_ins and len(comment.split()) > 2:
                    bad.append('comment line of %d > %d characters with several words: %r' % (len(ln), lw, ln[:60]))
                if not is_ins and case.get('warn_only') and not any(ln in x for x in warns):
                    bad.append('comment line of %d > %d characters without a warning: %r' % (len(ln), lw, ln[:60]))
        return bool(bad), '; '.join(dict.fromkeys(bad)) or 'output respects the width and keeps every word'
    finally:
        import shutil
        shutil.rmtree(d, ignore_errors=True)


def main():
    args = harness.parse_args(PROP)
    if args.replay:
        ok, detail = replay(harness.load_case(args.replay))
        print(('REPRODUCED: ' if ok else 'not reproduced: ') + detail)
        return 1 if ok else 0
    items = [('asm', ci, param) for ci in range(len(CORPUS)) for param in ('line-width', 'instruction-width', 'comment-width-min')]
    items += [('skool', ci) for ci in range(len(SKOOL_CTLS))]
    if args.only:
        items = [i for i in items if args.only in harness.item_name(i)]
    rep = harness.Report(
        PROP, args,
        functions=['skoolkit.skoolasm.AsmWriter.write / print_instructions / format / print_comment_lines / print_registers / wrap', 'skoolkit.wrap (textwrap with break_long_words=False)',
                   'skoolkit.skoolparser.SkoolParser (concrete text)', 'skoolkit.skoolutils.parse_address_comments / join_comments',
                   'skoolkit.snaskool.SkoolWriter.write_skool / _write_body / _format_instruction_comments / wrap (symbolic line width)'],
        bounds={'corpus': '%d skool entries (long unbreakable words, multi-instruction comment groups, registers, paragraphs, end comments, operations wider than the instruction field)' % len(CORPUS),
                'widths': 'line-width 40..200, instruction-width 5..40, comment-width-min 1..40: each symbolic in turn', 'sna2skool': '%d annotated control files written as skool files with a symbolic line width 40..200 (words preserved in order; no line over the width with more than one word)' % len(SKOOL_CTLS),
                'outside': 'other texts (the bound is the corpus), skool2html, tables and lists, tab/CRLF settings'},
        assumptions=[], stubs=['write_text and warn of skoolkit.skoolasm captured in lists'],
        rule='one case per feasible path = one maximal set of widths that wrap the corpus identically',
        explanation='The width parameters are symbolic: each path stands for all widths that make the same wrapping decisions; word preservation is checked concretely per path and the width bound by z3 over the path\'s width set.')
    for r in harness.pmap(work, items, args.jobs, init=init_worker, seed=args.seed):
        rep.add(r)
    if rep.paths < rep.items:
        rep.vacuity.append('some work items explored no path')
    return rep.finish(replay_in_subprocess=os.path.abspath(__file__))


if __name__ == '__main__':
    sys.exit(main())
