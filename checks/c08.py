#!/venv/bin/python
"""C08: simulated code cannot corrupt ROM, break register ranges or mis-page 128K RAM.

One inductive step: from an arbitrary state satisfying the invariant I (register ranges, byte-valued memory,
paging relation), any one instruction / interrupt / port write leaves a state in I, leaves every ROM cell
unchanged and does not decrease T.  Histories of any length follow by induction.
"""
import os
import sys

sys.path.insert(0, os.path.join(os.path.dirname(os.path.abspath(__file__)), '..', 'lib'))
import bootstrap  # noqa
import z3
import harness
import z80ref
import simharness as sh
import simcheck
from symx import Stats, HarnessError, Inconclusive, SymInt, SymBool, SymArray, SymList, bv, W, explore, sym_int, Path, rng

PROP = 'C08'


def init_worker():
    sh.patch_tables()
    sh.patch_delays()
    import shims
    import skoolkit.skoolutils as su
    shims.install_isinstance(su)


def new_res():
    return {'obligations': 0, 'discharged': 0, 'violations': [], 'inconclusive': [], 'samples': [], 'nontrivial': 0}


def finish(res, st):
    res.update(paths=st.paths, queries=st.queries, solver_s=st.solver_s, realisations=st.realisations)
    return res


# ---------------------------------------------------------------------------
def invariant_breaks(m):
    """disjuncts that are true when the post-state of machine m violates I / ROM / T monotonicity"""
    post = m.sim.registers
    diffs, names = [], []
    for i, (r, hi) in enumerate(zip(post, sh.REG_RANGES)):
        if i == 25:
            continue      # the clock is unbounded in Python; T < 2^32 is a bound of the claim, not part of I
        if not isinstance(r, (int, SymInt, SymBool)):
            diffs.append(z3.BoolVal(True)); names.append('%s is not an int: %r' % (sh.REG_NAMES[i], type(r)))
            continue
        lo_, hi_ = rng(r)
        if lo_ >= 0 and hi_ <= hi:
            continue
        diffs.append(z3.Or(bv(r) < 0, bv(r) > hi)); names.append(sh.REG_NAMES[i] + ' out of range')
    k = z3.BitVec('k_addr', 16)
    diffs.append(z3.And(z3.ULT(k, 0x4000), z3.Select(m.mem.arr, k) != z3.Select(m.mem0, k))); names.append('ROM modified')
    diffs.append(bv(post[25]) < m.regs0[25]); names.append('T decreased')
    return diffs, names


def check_step(item):
    _, cls_name, mach, tracer, table, op = item
    slot = (table, op)
    m = simcheck.get_machine(cls_name, mach, tracer)
    st = Stats()
    res = new_res()
    name = '%s %s %s%s' % (cls_name, mach, harness.item_name(slot), ' tracer' if tracer else '')

    def on(p, m, out):
        res['obligations'] += 1
        case = lambda mod: dict(kind='step', cls=cls_name, machine=mach, tracer=tracer, slot=list(slot),
                                **dict(zip(('regs', 'mem', 'inputs'), simcheck.model_state(mod, m))))
        if out is not None:
            r, mod = p.check(model=True)
            res['violations'].append(dict(key=name + ':exception', text='%s raises %r' % (name, out[1]), case=case(mod)))
            return
        diffs, names = invariant_breaks(m)
        r, mod, which_ = p.check_any(diffs, names)
        if r == 'unknown':
            res['inconclusive'].append(name); return
        if r == 'sat':
            which = ', '.join(which_)
            res['violations'].append(dict(key='%s:%s' % (name, which), text='%s: %s' % (name, which), case=case(mod)))
            return
        fo = p.failed_obligations()
        if fo:
            kind, c, mod = fo[0]
            res['violations'].append(dict(key='%s:%s' % (name, kind), text='%s: %s can fail' % (name, kind), case=case(mod)))
            return
        res['discharged'] += 1
        res['nontrivial'] += 1
        if not res['samples']:
            res['samples'].append({'item': name, 'obligation': 'post-state in I, ROM cells unchanged, T not decreased, stored values are bytes', 'verdict': 'unsat'})

    try:
        if table == 'interrupt':
            def fn(path):
                m.reset(path)
                m.sim.accept_interrupt(m.sim.registers, m.sim.memory, sym_int('prev_pc', 0, 65535))
            explore(fn, stats=st, on_path=lambda p, out: on(p, m, out))
        else:
            sh.run_slot(m, slot, on, st)
    except Inconclusive as e:
        res['inconclusive'].append('%s: %s' % (name, e))
    return finish(res, st)


# ---------------------------------------------------------------------------
# 128K paging: the five write_port implementations and the two Memory classes

class Bank(SymArray):
    """a 16K bank/ROM; == is content equality (as for lists), identity is object identity"""

    def __init__(self, name):
        super().__init__(name, 0x4000)
        self.name = name
        self.arr0 = self.arr

    def __eq__(self, o):
        if o is self:
            return True
        if isinstance(o, Bank):
            return SymBool(self.arr == o.arr)
        return NotImplemented

    def __hash__(self):
        return id(self)

    def __getitem__(self, i):
        if isinstance(i, slice):
            if i == slice(None, None, None):
                b = Bank(self.name + "'")
                b.arr = b.arr0 = self.arr
                b.copy_of = self
                return b
        return super().__getitem__(i)

    def __bool__(self):
        return True


def mk_paged(cls, o7, machine_kw=None):
    """an instance of a Memory class with symbolic banks/ROMs, paged consistently with the (symbolic) o7ffd value"""
    banks = [Bank('bank%d' % i) for i in range(8)]
    roms = (Bank('rom0'), Bank('rom1'))
    mem = cls.__new__(cls)
    mem.banks = banks if cls.__module__.endswith('skoolutils') else tuple(banks)
    mem.roms = roms
    page = Path.cur.realise((o7 % 8).e, 'paged-bank') if isinstance(o7, SymInt) else o7 % 8
    rom = Path.cur.realise(((o7 % 32) // 16).e, 'paged-rom') if isinstance(o7, SymInt) else (o7 % 32) // 16
    mem.memory = [roms[rom], banks[5], banks[2], banks[page]]
    mem.o7ffd = o7
    mem.machine = '128K'
    return mem, banks, roms


def paging_relation(mem, banks, roms, o7):
    """list of (text, ok) for the paging relation of `mem` against the value o7 (concrete page/rom on this path)"""
    page = Path.cur.realise((o7 % 8).e, 'paged-bank') if isinstance(o7, SymInt) else o7 % 8
    rom = Path.cur.realise(((o7 % 32) // 16).e, 'paged-rom') if isinstance(o7, SymInt) else (o7 % 32) // 16
    return [('ROM at 0x0000 is ROM %d' % rom, mem.memory[0] is roms[rom]),
            ('bank 5 at 0x4000', mem.memory[1] is banks[5]),
            ('bank 2 at 0x8000', mem.memory[2] is banks[2]),
            ('bank %d at 0xC000' % page, mem.memory[3] is banks[page])]


def tracer_impls():
    import skoolkit.pagingtracer as pt
    import skoolkit.skoolmacro as mac
    import skoolkit.rzxplay as rzx

    class T1(pt.PagingTracer):
        pass

    def mk_pt(variant):
        def mk(mem, o7):
            t = T1()
            t.simulator = type('S', (), {})()
            t.simulator.memory = mem
            t.out7ffd = o7
            t.outfffd = sym_int('outfffd', 0, 255)
            t.ay = SymList([sym_int('ay%d' % i, 0, 255) for i in range(16)])
            t.outfe = 0
            t.frame_duration = 70908
            if variant == 'border_list':
                t.border = []
                return t, t.write_port_with_border_list
            t.border = 0
            return t, t.write_port
        return mk

    def mk_mac(cls):
        def mk(mem, o7):
            t = cls(mem, o7, sym_int('outfffd', 0, 255), SymList([sym_int('ay%d' % i, 0, 255) for i in range(16)]))
            return t, t.write_port
        return mk

    def mk_rzx(mem, o7):
        t = rzx.RZXTracer.__new__(rzx.RZXTracer)
        t.simulator = type('S', (), {})()
        t.simulator.memory = mem
        t.out7ffd = o7
        t.outfffd = sym_int('outfffd', 0, 255)
        t.ay = SymList([sym_int('ay%d' % i, 0, 255) for i in range(16)])
        t.border = []
        t.outfe = 0
        t.frame_duration = 70908
        return t, t.write_port

    return {
        'pagingtracer.PagingTracer.write_port': (mk_pt('plain'), pt.Memory),
        'pagingtracer.PagingTracer.write_port_with_border_list': (mk_pt('border_list'), pt.Memory),
        'skoolmacro.PagingTracer.write_port': (mk_mac(mac.PagingTracer), 'skoolutils'),
        'skoolmacro.AudioTracer128.write_port': (mk_mac(mac.AudioTracer128), 'skoolutils'),
        'rzxplay.RZXTracer.write_port': (mk_rzx, pt.Memory),
    }


def check_paging(item):
    """one accepted/rejected write to a port from an arbitrary consistent paging state"""
    impl = item[1]
    st = Stats()
    res = new_res()
    import skoolkit.skoolutils as su
    mk, memcls = tracer_impls()[impl]
    if memcls == 'skoolutils':
        memcls = su.Memory

    def fn(path):
        o7 = sym_int('o7ffd', 0, 255)
        port = sym_int('port', 0, 65535)
        value = sym_int('value', 0, 255)
        mem, banks, roms = mk_paged(memcls, o7)
        tracer, write_port = mk(mem, o7)
        regs = [SymInt(r, 0, hi) for r, hi in zip(sh.reg_vars(), sh.REG_RANGES)]
        path.assume(*sh.invariant([r.e for r in regs]))
        write_port(regs, port, value, 12)
        locked = (o7 & 32) != 0
        decoded = (port & 0x8002) == 0
        accepted = bool(decoded) and not bool(locked)
        want = value if accepted else o7
        bad = [t for t, ok in paging_relation(mem, banks, roms, want) if not ok]
        for what, got in (('memory.o7ffd', mem.o7ffd), ('tracer.out7ffd', tracer.out7ffd)):
            eq = got == want
            if not (eq if isinstance(eq, bool) else bool(eq)):
                bad.append('%s is not the accepted value' % what)
        for b in banks + list(roms):
            if b.writes:
                bad.append('a port write modified memory contents')
        return dict(bad=bad, accepted=accepted, vars=(o7, port, value))

    def on(p, out):
        res['obligations'] += 1
        if out.__class__ is tuple and out[0] == 'exception':
            r, mod = p.check(model=True)
            res['violations'].append(dict(key=impl + ':exception', text='%s raises %r' % (impl, out[1]), case=dict(kind='paging', impl=impl)))
            return
        if out['bad']:
            r, mod = p.check(model=True)
            o7, port, value = [mod.eval(v.e, model_completion=True).as_long() for v in out['vars']]
            res['violations'].append(dict(key='%s:%s' % (impl, out['bad'][0]),
                                          text='%s: after OUT (%d),%d with 0x7FFD=%d: not (%s)' % (impl, port, value, o7, '; '.join(out['bad'])),
                                          case=dict(kind='paging', impl=impl, o7ffd=o7, port=port, value=value)))
            return
        res['discharged'] += 1
        res['nontrivial'] += 1
        if len(res['samples']) < 2:
            res['samples'].append({'impl': impl, 'path': 'accepted' if out['accepted'] else 'rejected/locked', 'obligation': 'paging relation and o7ffd/out7ffd follow the last accepted write', 'verdict': 'holds on path'})

    try:
        explore(fn, stats=st, on_path=on)
    except Inconclusive as e:
        res['inconclusive'].append('%s: %s' % (impl, e))
    return finish(res, st)


def check_memaccess(item):
    """Memory.__getitem__/__setitem__: a write reaches exactly one cell of exactly the bank mapped at that address"""
    which = item[1]
    st = Stats()
    res = new_res()
    import skoolkit.pagingtracer as pt
    import skoolkit.skoolutils as su
    cls = {'pagingtracer.Memory': pt.Memory, 'skoolutils.Memory': su.Memory}[which]

    def fn(path):
        o7 = sym_int('o7ffd', 0, 255)
        addr = sym_int('addr', 0, 65535)
        value = sym_int('value', 0, 255)
        mem, banks, roms = mk_paged(cls, o7)
        before = mem[addr]
        mem[addr] = value
        after = mem[addr]
        slot = Path.cur.realise((addr // 0x4000).e, 'slot')
        target = mem.memory[slot]
        bad = []
        others = [b for b in banks + list(roms) if b is not target and b.writes]
        if others:
            bad.append('write reached %s as well as / instead of the bank mapped at slot %d' % (others[0].name, slot))
        if len(target.writes) != 1:
            bad.append('%d cells written' % len(target.writes))
        obl = [after.e == value.e, bv(before) == z3.ZeroExt(W - 8, z3.Select(target.arr0, z3.Extract(15, 0, (addr % 0x4000).e)))]
        if target.writes:
            obl.append(target.writes[0][0] == z3.Extract(15, 0, (addr % 0x4000).e))
        return dict(bad=bad, obl=obl, vars=(o7, addr, value))

    def on(p, out):
        res['obligations'] += 1
        if out.__class__ is tuple and out[0] == 'exception':
            res['violations'].append(dict(key=which + ':exception', text='%s access raises %r' % (which, out[1]), case=dict(kind='memaccess', cls=which)))
            return
        r, mod = ('sat', None) if out['bad'] else p.check(z3.Not(z3.And(*out['obl'])), model=True)
        if r == 'unknown':
            res['inconclusive'].append(which); return
        if r == 'sat' or p.failed_obligations():
            if mod is None:
                r, mod = p.check(model=True)
            o7, addr, value = [mod.eval(v.e, model_completion=True).as_long() for v in out['vars']]
            res['violations'].append(dict(key=which + ':access', text='%s: write of %d to %d with 0x7FFD=%d: %s' % (which, value, addr, o7, '; '.join(out['bad']) or 'wrong cell/value'),
                                          case=dict(kind='memaccess', cls=which, o7ffd=o7, addr=addr, value=value)))
            return
        res['discharged'] += 1
        res['nontrivial'] += 1

    try:
        explore(fn, stats=st, on_path=on)
    except Inconclusive as e:
        res['inconclusive'].append('%s: %s' % (which, e))
    return finish(res, st)


def check_skoolmem(item):
    """skoolutils.Memory operations preserve the paging relation: bank(), out7ffd(), copy(), convert()"""
    op = item[1]
    st = Stats()
    res = new_res()
    import skoolkit.skoolutils as su
    import skoolkit.pagingtracer as pt
    cls = pt.Memory if op.startswith('pagingtracer') else su.Memory

    def fn(path):
        o7 = sym_int('o7ffd', 0, 255)
        arg = sym_int('arg', 0, 255)
        mem, banks, roms = mk_paged(cls, o7)
        bad = []
        if op == 'bank':
            page = Path.cur.realise((arg % 8).e, 'page-arg')
            mem.bank(page)
            want = (o7 & 0xF8) + page
            tgt, tb, tr = mem, banks, roms
        elif op.endswith('out7ffd'):
            mem.out7ffd(arg)
            want = arg
            tgt, tb, tr = mem, banks, roms
        elif op == 'copy':
            # environment fact: the two ROM images are the shipped 128K ROM 0 / ROM 1 files, which differ
            path.assume(roms[0].arr != roms[1].arr)
            tgt = mem.copy()
            want = o7
            tb, tr = list(tgt.banks), tuple(tgt.roms)
            for i, b in enumerate(tb):
                if getattr(b, 'copy_of', None) is not banks[i]:
                    bad.append('bank %d of the copy is not a copy of bank %d' % (i, i))
            for b in banks + list(roms):
                if b.writes:
                    bad.append('copy() modified the original')
        else:
            raise HarnessError(op)
        eq = tgt.o7ffd == want
        if not (eq if isinstance(eq, bool) else bool(eq)):
            bad.append('o7ffd is not the selected value')
        bad += [t for t, ok in paging_relation(tgt, tb, tr, want) if not ok]
        return dict(bad=bad, vars=(o7, arg), equal=[(i, j) for i in range(8) for j in range(i)])

    def on(p, out):
        res['obligations'] += 1
        if out.__class__ is tuple and out[0] == 'exception':
            res['violations'].append(dict(key='skoolutils.Memory.%s:exception' % op, text='Memory.%s raises %r' % (op, out[1]), case=dict(kind='skoolmem', op=op)))
            return
        if out['bad']:
            r, mod = p.check(model=True)
            o7, arg = [mod.eval(v.e, model_completion=True).as_long() for v in out['vars']]
            # which banks have equal contents in this model (needed to reproduce list-equality effects)
            same = []
            for i in range(8):
                for j in range(i):
                    a = z3.Array('bank%d' % i, z3.BitVecSort(16), z3.BitVecSort(8))
                    b = z3.Array('bank%d' % j, z3.BitVecSort(16), z3.BitVecSort(8))
                    if z3.is_true(mod.eval(a == b, model_completion=True)):
                        same.append((j, i))
            res['violations'].append(dict(key='Memory.%s:paging-relation' % op,
                                          text='Memory.%s with 0x7FFD=%d arg=%d (banks with equal contents: %s): %s' % (op, o7, arg, same, '; '.join(out['bad'])),
                                          case=dict(kind='skoolmem', op=op, o7ffd=o7, arg=arg, same=same)))
            return
        res['discharged'] += 1
        res['nontrivial'] += 1

    try:
        explore(fn, stats=st, on_path=on)
    except Inconclusive as e:
        res['inconclusive'].append('%s: %s' % (op, e))
    return finish(res, st)


def work(item):
    return {'step': check_step, 'paging': check_paging, 'memaccess': check_memaccess, 'skoolmem': check_skoolmem}[item[0]](item)


# ---------------------------------------------------------------------------
def replay(case):
    kind = case['kind']
    if kind == 'step':
        mem, default = simcheck.mem_from_case(case['mem'])
        regs = case['regs']
        slot = case['slot']
        try:
            if slot[0] == 'interrupt':
                got, memory, _ = simcheck.run_real(case['cls'], 'interrupt', regs, mem, case['machine'], default=default)
            else:
                got, memory, _ = simcheck.run_real(case['cls'], tuple(slot), regs, mem, case['machine'], case.get('inputs', ()), case.get('tracer'), default=default)
        except Exception as e:
            return True, 'raises %r' % e
        bad = []
        for i, (g, hi) in enumerate(zip(got, sh.REG_RANGES)):
            if i == 25:
                continue
            if not isinstance(g, int) or isinstance(g, bool) or not 0 <= g <= hi:
                bad.append('%s=%r out of range' % (sh.REG_NAMES[i], g))
        if got[25] < regs[25]:
            bad.append('T decreased')
        for a in range(65536):
            v = memory[a]
            if a < 0x4000 and v != mem.get(a, default):
                bad.append('ROM cell %d changed to %r' % (a, v))
            if not isinstance(v, int) or not 0 <= v <= 255:
                bad.append('memory[%d]=%r is not a byte' % (a, v))
            if len(bad) > 5:
                break
        return bool(bad), '; '.join(bad) or 'invariant holds on this input'
    if kind == 'paging':
        return replay_paging(case)
    if kind == 'memaccess':
        return replay_memaccess(case)
    if kind == 'skoolmem':
        return replay_skoolmem(case)
    return False, 'no replay for ' + kind


def _real_mem(cls, o7, same=()):
    banks = [[(i * 37 + 1) % 256] * 0x4000 for i in range(8)]
    for j, i in same:
        banks[i] = list(banks[j])
    mem = cls.__new__(cls)
    import skoolkit.skoolutils as su
    mem.banks = banks if cls is su.Memory else tuple(banks)
    mem.roms = ([201] * 0x4000, [202] * 0x4000)
    mem.memory = [mem.roms[(o7 % 32) // 16], banks[5], banks[2], banks[o7 % 8]]
    mem.o7ffd = o7
    mem.machine = '128K'
    return mem


def _relation(mem, want):
    bad = []
    if mem.memory[0] is not mem.roms[(want % 32) // 16]:
        bad.append('wrong ROM paged')
    if mem.memory[1] is not mem.banks[5] or mem.memory[2] is not mem.banks[2]:
        bad.append('bank 5/2 moved')
    if mem.memory[3] is not mem.banks[want % 8]:
        bad.append('bank at 0xC000 is not bank %d' % (want % 8))
    if mem.o7ffd != want:
        bad.append('o7ffd=%r, expected %r' % (mem.o7ffd, want))
    return bad


def replay_paging(case):
    import skoolkit.skoolutils as su
    impl = case['impl']
    if 'o7ffd' not in case:
        return False, 'no concrete input'
    o7, port, value = case['o7ffd'], case['port'], case['value']
    import skoolkit.pagingtracer as pt
    import skoolkit.skoolmacro as mac
    import skoolkit.rzxplay as rzx
    cls = su.Memory if impl.startswith('skoolmacro') else pt.Memory
    mem = _real_mem(cls, o7)
    snap = [list(b) for b in mem.banks]
    regs = [0] * 30
    if impl.startswith('skoolmacro'):
        tcls = mac.PagingTracer if 'PagingTracer' in impl else mac.AudioTracer128
        t = tcls(mem, o7, 0, [0] * 16)
        wp = t.write_port
    else:
        t = (rzx.RZXTracer if impl.startswith('rzxplay') else pt.PagingTracer).__new__(rzx.RZXTracer if impl.startswith('rzxplay') else pt.PagingTracer)
        t.simulator = type('S', (), {})()
        t.simulator.memory = mem
        t.out7ffd, t.outfffd, t.ay, t.outfe, t.frame_duration = o7, 0, [0] * 16, 0, 70908
        t.border = [] if (impl.endswith('border_list') or impl.startswith('rzxplay')) else 0
        wp = t.write_port_with_border_list if impl.endswith('border_list') else t.write_port
    try:
        wp(regs, port, value, 12)
    except Exception as e:
        return True, 'raises %r' % e
    accepted = port & 0x8002 == 0 and o7 & 32 == 0
    want = value if accepted else o7
    bad = _relation(mem, want)
    if t.out7ffd != want:
        bad.append('tracer.out7ffd=%r, expected %r' % (t.out7ffd, want))
    if [list(b) for b in mem.banks] != snap:
        bad.append('memory contents changed')
    return bool(bad), '; '.join(bad) or 'paging follows the specification on this input'


def replay_memaccess(case):
    import skoolkit.pagingtracer as pt
    import skoolkit.skoolutils as su
    if 'addr' not in case:
        return False, 'no concrete input'
    cls = {'pagingtracer.Memory': pt.Memory, 'skoolutils.Memory': su.Memory}[case['cls']]
    o7, addr, value = case['o7ffd'], case['addr'], case['value']
    mem = _real_mem(cls, o7)
    phys = {0: mem.roms[(o7 % 32) // 16], 1: mem.banks[5], 2: mem.banks[2], 3: mem.banks[o7 % 8]}[addr // 0x4000]
    allb = list(mem.banks) + list(mem.roms)
    snap = [list(b) for b in allb]
    try:
        mem[addr] = value
        got = mem[addr]
    except Exception as e:
        return True, 'raises %r' % e
    bad = []
    if got != value:
        bad.append('read back %r' % got)
    for b, s in zip(allb, snap):
        exp = list(s)
        if b is phys:
            exp[addr % 0x4000] = value
        if list(b) != exp:
            bad.append('unexpected contents after the write')
    return bool(bad), '; '.join(bad) or 'write reached exactly the mapped cell'


def replay_skoolmem(case):
    import skoolkit.skoolutils as su
    import skoolkit.pagingtracer as pt
    op = case['op']
    if 'o7ffd' not in case:
        return False, 'no concrete input'
    o7, arg = case['o7ffd'], case['arg']
    cls = pt.Memory if op.startswith('pagingtracer') else su.Memory
    mem = _real_mem(cls, o7, [tuple(x) for x in case.get('same', [])])
    try:
        if op == 'bank':
            mem.bank(arg % 8)
            return_bad = _relation(mem, (o7 & 0xF8) + arg % 8)
        elif op.endswith('out7ffd'):
            mem.out7ffd(arg)
            return_bad = _relation(mem, arg)
        else:
            c = mem.copy()
            return_bad = _relation(c, o7)
            if not return_bad:
                c[0xC000] = (c[0xC000] + 1) % 256
    except Exception as e:
        return True, 'raises %r' % e
    return bool(return_bad), '; '.join(return_bad) or 'paging relation holds on this input'


# ---------------------------------------------------------------------------
STORE_FACTORIES = None


def main():
    args = harness.parse_args(PROP)
    if args.replay:
        ok, detail = replay(harness.load_case(args.replay))
        print(('REPRODUCED: ' if ok else 'not reproduced: ') + detail)
        return 1 if ok else 0
    slots = z80ref.all_slots()
    items = [('step', 'Simulator', '48K', False) + s for s in slots]
    items += [('step', 'Simulator', '48K', True) + s for s in slots if s in simcheck.IO_SLOTS]
    items += [('step', 'Simulator', '48K', False, 'interrupt', 0)]
    items += [('paging', k) for k in ('pagingtracer.PagingTracer.write_port', 'pagingtracer.PagingTracer.write_port_with_border_list',
                                      'skoolmacro.PagingTracer.write_port', 'skoolmacro.AudioTracer128.write_port', 'rzxplay.RZXTracer.write_port')]
    items += [('memaccess', 'pagingtracer.Memory'), ('memaccess', 'skoolutils.Memory')]
    items += [('skoolmem', 'bank'), ('skoolmem', 'out7ffd'), ('skoolmem', 'copy'), ('skoolmem', 'pagingtracer.out7ffd')]
    items += [('step', 'CMIOSimulator-rec', '48K', False) + s for s in slots]
    items += [('step', 'CMIOSimulator-rec', '48K', True) + s for s in slots if s in simcheck.IO_SLOTS]
    items += [('step', 'CMIOSimulator', '48K', False, 'interrupt', 0)]
    if args.tier == 'thorough':
        items += [('step', 'CMIOSimulator', '48K', False) + s for s in slots]
        items += [('step', 'CMIOSimulator', '48K', True) + s for s in slots if s in simcheck.IO_SLOTS]
    if args.only:
        items = [i for i in items if args.only in harness.item_name(i)]
    rep = harness.Report(
        PROP, args,
        functions=['skoolkit.simulator.Simulator.* closures (all slots) and accept_interrupt', 'skoolkit.pagingtracer.Memory.__getitem__/__setitem__/out7ffd',
                   'skoolkit.pagingtracer.PagingTracer.write_port / write_port_with_border_list', 'skoolkit.skoolmacro.PagingTracer.write_port / AudioTracer128.write_port',
                   'skoolkit.rzxplay.RZXTracer.write_port', 'skoolkit.skoolutils.Memory.__getitem__/__setitem__/bank/out7ffd/copy']
        + ['skoolkit.cmiosimulator.CMIOSimulator.* closures (contend() recorded in quick, real in thorough)'],
        bounds={'step': 'one instruction / interrupt / port write / memory access from any state satisfying the invariant (inductive step: histories of any length follow)',
                'paging': 'port 0..65535, value 0..255, previous 0x7FFD value 0..255 all symbolic; bank and ROM contents symbolic arrays',
                'outside': 'the C implementation (OUT macro / out7ffd in c/csimulator.c) - see C06; Memory.convert (creates bytearrays: C boundary)'},
        assumptions=['state invariant I: register ranges as in C05, memory cells are bytes, memory[0] is roms[(o7ffd%32)//16], memory[3] is banks[o7ffd%8], slots 1,2 are banks 5,2, tracer.out7ffd == memory.o7ffd',
                     'reference reading of "accepted write": port & 0x8002 == 0 and bit 5 of the previous accepted value clear'],
        stubs=['banks/ROMs are symbolic 16K arrays whose == is content equality (as for Python lists) and whose [:] makes a tracked copy',
               'tracer objects are built with __new__ and given exactly the attributes their write_port reads'],
        rule='one case per feasible path of the real code per work item (instruction slot, write_port implementation, Memory operation); all are non-trivial (symbolic state)',
        explanation='Inductive step by bounded symbolic execution: from any state in the invariant, one step of the real code is shown (z3, per path) to stay in the invariant, leave ROM unchanged, '
                    'not decrease T, and page exactly as the accepted 0x7FFD write prescribes.')
    for r in harness.pmap(work, items, args.jobs, init=init_worker, seed=args.seed):
        rep.add(r)
    if rep.paths < rep.items:
        rep.vacuity.append('some work items explored no path')
    return rep.finish(replay_in_subprocess=os.path.abspath(__file__))


if __name__ == '__main__':
    sys.exit(main())
