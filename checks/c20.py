#!/venv/bin/python
"""C20: RZX playback - fetch accounting, frame-boundary rules and the recording codec.

(a) rzxplay.process_block's frame loop is run for one frame on every opcode slot from a symbolic CPU state (real Simulator
    closures): the fetch counter it reports after the instruction (TraceLine field {fc}) falls by exactly the number of M1
    cycles of the instruction (1; 2 for CB/ED/DDCB/FDCB and for DD/FD before an instruction that uses the index register;
    1 for a DD/FD prefix that has no effect), the loop stops after that instruction, and the state after the frame boundary
    is the documented one: T reset, and - when interrupts are enabled - an interrupt accepted per playback flags 0-3
    (HALT: PC advanced first; flag 1: LD A,I/R resets bit 2 of F; flag 2: EI before a short frame blocks it).
(b) CSimulator_exec_frame (LLVM IR of the current C source) consumes the same number of fetches and leaves the same state as
    the Python loop, per slot.
(c) write_rzx -> parse_rzx: the remaining frames (fetch counters and port readings, symbolic) written with the embedded
    snapshot are the ones parsed back.
"""
import os
import sys

sys.path.insert(0, os.path.join(os.path.dirname(os.path.abspath(__file__)), '..', 'lib'))
import bootstrap  # noqa
import z3
import harness
import z80ref
import simharness as sh
import simcheck
import numerals
from symx import Stats, HarnessError, Inconclusive, SymInt, SymBool, SymArray, bv, W, explore, sym_int, Path, rng

PROP = 'C20'
LDAIR = (('ED', 0x57), ('ED', 0x5F))
HALT_SLOT = ('main', 0x76)
EI_SLOT = ('main', 0xFB)


class SecondFetch(Exception):
    pass


class GuardMem(SymArray):
    """the machine's memory; counts the opcode fetches of the frame loop (the loop indexes memory with the PC register object)"""
    guard = None

    def __getitem__(self, i):
        g = self.guard
        if g is not None and isinstance(i, SymInt) and i is g['sim'].registers[24] and g['tracer'].frame_index < 1 and sys._getframe(1).f_code.co_name == 'process_block':
            g['fetches'] += 1
            if g['fetches'] > 1:
                raise SecondFetch('the frame loop fetches a second instruction')
        v = SymArray.__getitem__(self, i)
        if g is not None and isinstance(v, SymInt) and not isinstance(i, slice) and not z3.is_bv_value(z3.simplify(v.e)):
            # a read of one of the pinned opcode bytes after the instruction wrote to memory: an instruction that overwrites its
            # own opcode bytes is outside the claim (cut), so the byte read is the pinned one
            ie = self._idx(i, 'read')
            v0 = z3.simplify(z3.Select(g['mem0'], ie))
            if z3.is_bv_value(v0):
                Path.cur.assume(z3.Extract(7, 0, v.e) == v0)
                return v0.as_long()
        return v


class Obj:
    pass


class Rec:
    def __init__(self):
        self.lines = []

    def write(self, s):
        self.lines.append(s)


_MACHINES = {}


def machine():
    if 'm' not in _MACHINES:
        import skoolkit.simulator as sm
        tr = sh.Tracer()
        m = sh.Machine(sm.Simulator, '48K', None, config={'int_active': 0})
        m.mem.__class__ = GuardMem
        _MACHINES['m'] = m
    return _MACHINES['m']


def init_worker():
    sh.patch_tables()
    import skoolkit
    import skoolkit.rzxplay as rp
    import skoolkit.traceutils as tu
    numerals.install(skoolkit)        # format hook: the trace line renders operands and the fetch counter
    import bytesshim
    bytesshim.install(rp)             # bytearray / bytes / zlib (identity) in rzxplay: recordings hold symbolic bytes
    import shims
    shims.install_isinstance(rp, tu)


def new_res():
    return {'obligations': 0, 'discharged': 0, 'violations': [], 'inconclusive': [], 'samples': [], 'nontrivial': 0}


def finish(res, st):
    res.update(paths=st.paths, queries=st.queries, solver_s=st.solver_s, realisations=st.realisations)
    return res


def m1_count(slot):
    t, op = slot
    if t == 'main':
        return 1
    if t in ('DD', 'FD'):
        return 2 if z80ref.uses_index(op) else 1
    return 2


def does_in(slot):
    t, op = slot
    if t == 'main':
        return op == 0xDB
    if t in ('DD', 'FD'):
        return False          # IN A,(n) does not use the index register: the prefix is executed alone
    if t == 'ED':
        return (op & 0xC7) == 0x40 or op in (0xA2, 0xB2, 0xAA, 0xBA)
    return False


def oracle(slot, regs0, mem0, flags, f2, pv, concrete=False, decide=None):
    """-> (expected registers[0..28] as terms, expected memory term, cut) after one frame holding exactly this instruction"""
    env = z80ref.Env(69888, 0, True, pv) if concrete else sh.RefEnv('48K', True, pv)
    env.int_active = 0
    s = z80ref.step(slot, regs0, mem0, env)
    r = list(s.r)
    r[25] = z3.BitVecVal(0, W)                       # the clock restarts at every frame boundary
    pc16 = z3.Extract(15, 0, regs0[24])
    # outside the claim: an instruction that overwrites its own opcode bytes (the boundary rules look at memory afterwards)
    cut = z3.And(z3.Select(s.mem, pc16) == z3.Select(mem0, pc16), z3.Select(s.mem, pc16 + 1) == z3.Select(mem0, pc16 + 1))
    ra = list(r)
    accept = z3.BoolVal(True)
    if slot == HALT_SLOT:
        ra[24] = (ra[24] + 1) & 0xFFFF
    elif (flags & 1) and slot in LDAIR:
        ra[1] = ra[1] & 0xFB
    elif flags & 2:
        if slot == EI_SLOT:
            accept = z3.UGT(f2, 2)
    a = z80ref.accept_interrupt(ra, s.mem, env)
    iff = r[26] != 0
    take = z3.simplify(z3.And(iff, accept))
    d = decide(take) if decide else None       # the code under test branches on these conditions: on a path they are decided
    if d is True:
        return [a.r[i] for i in range(29)], a.mem, cut, s.fmask_expr
    if d is False:
        return r[:29], s.mem, cut, s.fmask_expr
    regs = [z3.If(take, a.r[i], r[i]) for i in range(29)]
    mem = z3.If(take, a.mem, s.mem)
    return regs, mem, cut, s.fmask_expr


def setup_playback(m, path, slot, flags, tracefile, f2):
    import skoolkit.rzxplay as rp
    sim = m.sim
    ctx = rp.RZXContext(None)
    ctx.simulator = sim
    ctx.total_frames = 2
    ctx.tracefile = tracefile
    ctx.trace_line = '{fc}'
    ctx.operand_fmt = ('', '', '')
    ctx.registers = None
    tracer = rp.RZXTracer.__new__(rp.RZXTracer)
    tracer.context = ctx
    tracer.simulator = sim
    tracer.frame_duration = 69888
    tracer.border = [(0, 0)]
    tracer.out7ffd = 0
    tracer.outfffd = 0
    tracer.ay = [0] * 16
    tracer.outfe = 0
    sim.set_tracer(tracer)
    n_in = 1 if does_in(slot) else 0
    return ctx, tracer, n_in


def check_fetch(item):
    """('fetch', table, op, flags)"""
    _, table, op, flags = item
    slot = (table, op)
    import skoolkit.rzxplay as rp
    m = machine()
    st = Stats()
    res = new_res()
    name = 'frame loop %s playback flags=%d' % (harness.item_name(slot), flags)
    pins = z80ref.slot_bytes(slot)
    F1 = m1_count(slot)
    state = {}

    def fn(path):
        m.reset(path)
        pc16 = z3.Extract(15, 0, m.regs0[24])
        arr = m.mem0
        for k, b in enumerate(pins):
            if b is not None:
                arr = z3.Store(arr, pc16 + k, z3.BitVecVal(b, 8))
        m.mem0 = arr                         # opcode bytes are part of the pre-state (structurally, so that fetches fold)
        m.mem.arr = arr
        # rzxplay passes address 0 as "previous PC" to accept_interrupt, which looks for EI/DD/FD there: the Spectrum ROMs hold DI
        path.assume(z3.Select(arr, z3.BitVecVal(0, 16)) == 0xF3)
        f2 = sym_int('next_frame_fetches', 1, 1000)
        inp = sym_int('port_reading', 0, 255)
        rec = Rec()
        ctx, tracer, n_in = setup_playback(m, path, slot, flags, rec, f2)
        block = rp.InputRecording(m.sim.registers[25], [rp.Frame(F1, 0, n_in), rp.Frame(f2, n_in, n_in)], [inp][:n_in])
        opts = Obj()
        opts.quiet, opts.stop, opts.cmio, opts.python = True, 1, False, True
        m.mem.guard = {'sim': m.sim, 'fetches': 0, 'mem0': arr, 'tracer': tracer}
        state.update(f2=f2, inp=inp, rec=rec, ctx=ctx)
        try:
            rp.process_block(block, opts, flags, ctx)
        finally:
            m.mem.guard = None
        return rec.lines

    def case_of(mod):
        regs, mem, _ = simcheck.model_state(mod, m)
        return dict(kind='fetch', slot=list(slot), flags=flags, regs=regs, mem=mem, f2=mod.eval(state['f2'].e, model_completion=True).as_long(),
                    inp=mod.eval(state['inp'].e, model_completion=True).as_long())

    def on(p, out):
        res['obligations'] += 1
        if isinstance(out, tuple) and out[0] == 'exception':
            r, mod = p.check(model=True)
            what = 'fetches another instruction after %d fetch(es)' % F1 if isinstance(out[1], SecondFetch) else 'raises %r' % (out[1],)
            res['violations'].append(dict(key='%s:%s' % (name, type(out[1]).__name__), text='%s: %s' % (name, what), case=case_of(mod)))
            return
        lines = out
        structural = []
        if len(lines) != 1:
            structural.append('%d instructions traced in a frame of %d fetch(es)' % (len(lines), F1))
        diffs, names = [], []
        if len(lines) == 1:
            toks = numerals.token_values(lines[0])
            if toks:
                neg = lines[0].strip().startswith('-')
                diffs.append(bv(toks[0][1]) != 0); names.append('fetch counter after the instruction')
            else:
                try:
                    if int(lines[0]) != 0:
                        structural.append('fetch counter after the instruction is %s, not 0' % lines[0].strip())
                except ValueError:
                    structural.append('trace line %r' % lines[0])
        pv = z3.Extract(7, 0, state['inp'].e)
        def decide(cond):
            if z3.is_true(cond):
                return True
            if z3.is_false(cond):
                return False
            if p.check(cond) == 'unsat':
                return False
            if p.check(z3.Not(cond)) == 'unsat':
                return True
            return None
        eregs, emem, cut, fmask = oracle(slot, m.regs0, m.mem0, flags, state['f2'].e, pv, decide=decide)
        post = m.post_regs()
        for i in range(29):
            if i == 13:
                continue
            if i == 1:
                diffs.append(((post[1] ^ eregs[1]) & z3.ZeroExt(56, fmask)) != 0)      # documented flag bits
            else:
                diffs.append(post[i] != eregs[i])
            names.append(sh.REG_NAMES[i])
        k = z3.BitVec('k_addr', 16)
        diffs.append(z3.Select(m.mem.arr, k) != z3.Select(emem, k)); names.append('memory')
        with p.assuming(cut):
            if structural:
                r, mod = p.check(model=True); which = structural
            else:
                r, mod, which = p.check_any(diffs, names)
        if r == 'unknown':
            res['inconclusive'].append(name); return
        if r == 'sat':
            res['violations'].append(dict(key='%s:%s' % (name, which[0][:40]), text='%s: %s' % (name, ', '.join(which)), case=case_of(mod)))
            return
        res['discharged'] += 1
        res['nontrivial'] += 1
        if not res['samples']:
            res['samples'].append({'item': name, 'frame': F1, 'trace': [numerals.skeleton(x) for x in lines], 'verdict': 'unsat'})

    try:
        explore(fn, stats=st, on_path=on, max_paths=400)
    except Inconclusive as e:
        res['inconclusive'].append('%s: %s' % (name, e))
    return finish(res, st)


# ---------------------------------------------------------------------------
def check_codec(item):
    """('codec', snapshot type, frames written, first frame index)"""
    _, stype, nframes, first = item
    st = Stats()
    res = new_res()
    import skoolkit.rzxplay as rp
    import skoolkit.simulator as sm
    import skoolkit.snapshot as sn
    import bytesshim
    name = 'write_rzx/parse_rzx %s, %d frame(s) from index %d' % (stype, nframes, first)

    def fn(path):
        sim = sm.Simulator([0] * 65536)
        tracer = rp.RZXTracer.__new__(rp.RZXTracer)
        tracer.border = [(0, 1)]
        tracer.out7ffd = tracer.outfffd = tracer.outfe = 0
        tracer.ay = [0] * 16
        frames, data = [], []
        for k in range(first + nframes):
            fc = sym_int('fc%d' % k, 0, 65535)
            n = (k * 2 + 1) % 3            # 1, 0, 2, 1, ... port readings
            start = len(data)
            data += [sym_int('in%d_%d' % (k, j), 0, 255) for j in range(n)]
            frames.append(rp.Frame(fc, start, len(data)))
        tracer.frames = frames
        tracer.data = data
        tracer.frame_index = first
        sim.tracer = tracer
        ctx = rp.RZXContext(None)
        ctx.simulator = sim
        ctx.snapshot = sn.Z80(ram=[0] * 49152) if stype == 'z80' else sn.SZX(ram=[0] * 49152)
        files = {}

        class F:
            def __init__(self, n):
                self.n = n

            def __enter__(self):
                return self

            def __exit__(self, *a):
                return False

            def write(self, d):
                files[self.n] = d
        rp.open = lambda fname, mode='r': F(fname)
        try:
            rp.write_rzx('out.rzx', ctx, [])
        finally:
            del rp.open
        rp.read_bin_file = lambda f: files[f]
        contents = rp.parse_rzx('out.rzx')
        return frames, data, contents

    def on(p, out):
        res['obligations'] += 1
        if isinstance(out, tuple) and out[0] == 'exception':
            res['violations'].append(dict(key='%s:exception' % name, text='%s raises %r' % (name, out[1]), case=dict(kind='codec', item=list(item))))
            return
        frames, data, contents = out
        structural, diffs, names = [], [], []
        snaps = [c for c in contents if not isinstance(c.obj, rp.InputRecording)]
        recs = [c.obj for c in contents if isinstance(c.obj, rp.InputRecording)]
        if len(snaps) != 1 or len(recs) != 1:
            structural.append('%d snapshot block(s) and %d input recording block(s) parsed' % (len(snaps), len(recs)))
        else:
            rec = recs[0]
            want = frames[first:]
            if len(rec.frames) != len(want):
                structural.append('%d frames parsed, %d written' % (len(rec.frames), len(want)))
            else:
                for k, (g, w) in enumerate(zip(rec.frames, want)):
                    diffs.append(bv(g.fetch_counter) != bv(w.fetch_counter)); names.append('fetch counter of frame %d' % k)
                    if g.end - g.start != w.end - w.start:
                        structural.append('frame %d has %r port readings, %d written' % (k, g.end - g.start, w.end - w.start))
                    else:
                        for x, y in zip(rec.data[g.start:g.end], data[w.start:w.end]):
                            diffs.append(bv(x) != bv(y)); names.append('port reading of frame %d' % k)
            if bv(rec.tstates) is not None:
                diffs.append(bv(rec.tstates) != 0); names.append('initial T-states of the written recording')
        if structural:
            r, mod = p.check(model=True); which = structural
        else:
            r, mod, which = p.check_any(diffs, names)
        if r == 'unknown':
            res['inconclusive'].append(name); return
        if r == 'sat':
            vals = {str(d): mod[d].as_long() for d in mod.decls() if hasattr(mod[d], 'as_long') and str(d).startswith(('fc', 'in'))}
            res['violations'].append(dict(key='%s:%s' % (name, which[0][:40]), text='%s: %s with %r' % (name, '; '.join(which[:3]), vals), case=dict(kind='codec', item=list(item), vals=vals)))
            return
        res['discharged'] += 1
        res['nontrivial'] += 1
        if not res['samples']:
            res['samples'].append({'item': name, 'frames': len(frames) - first, 'verdict': 'unsat'})

    try:
        explore(fn, stats=st, on_path=on, max_paths=2000)
    except Inconclusive as e:
        res['inconclusive'].append('%s: %s' % (name, e))
    return finish(res, st)


# ---------------------------------------------------------------------------
DISPATCH = ('opcodes', 'after_CB', 'after_ED', 'after_DD', 'after_FD', 'after_DDCB', 'after_FDCB')
ENTRY_SIZE = 48          # sizeof(OpcodeFunction): function pointer, lookup pointer, int[7], padding (checked against the IR type)


def _exec_frame_support():
    import llsym

    def do_call(self, env, dst, rhs, _orig=llsym.Interp.do_call):
        ef = getattr(self, 'exec_frame', None)
        if ef is not None:
            import re
            m = re.match(r'call (?:[a-z_]+ )*?(.+?) (@[\w.]+|%\d+)\((.*)\)$', rhs)
            if m:
                callee = m.group(2)
                if callee in ('@PyArg_ParseTupleAndKeywords', '@_PyArg_ParseTupleAndKeywords_SizeT'):
                    vals = [self.val(env, tok, ty) for ty, tok in (self._ty_tok(a) for a in llsym.split_top(m.group(3)))]
                    self.store(vals[4], 'i32', ef['fetch_count'])
                    self.store(vals[6], '%struct._object*', llsym.Ptr(('pyobj', 'trace_callback')))
                    env[dst] = z3.BitVecVal(1, 32)
                    return
                if callee == '@PyObject_Call':
                    vals = [self.val(env, tok, ty) for ty, tok in (self._ty_tok(a) for a in llsym.split_top(m.group(3)))]
                    if vals[0].region == ('pyobj', 'trace_callback'):
                        fmt, av = self.pyvals[vals[1].region[1]]
                        ef['trace'].append(tuple(av))
                        env[dst] = llsym.Ptr(('pyval', 'none'))
                        return
                if callee == '@PyLong_FromLong':
                    vals = [self.val(env, tok, ty) for ty, tok in (self._ty_tok(a) for a in llsym.split_top(m.group(3)))]
                    ef['ret'] = vals[0]
                    env[dst] = llsym.Ptr(('pyval', 'ret'))
                    return
                if callee.startswith('%'):
                    fp = env[callee]
                    if not fp.is_null() and fp.region[0] == 'func':
                        ef['dispatched'] += 1
                        if ef['dispatched'] > 1:
                            raise SecondFetch('CSimulator_exec_frame executes a second instruction')
        return _orig(self, env, dst, rhs)

    def load(self, p, ty, _orig=llsym.Interp.load):
        ef = getattr(self, 'exec_frame', None)
        if ef is not None and not p.is_null() and p.region[0] == 'global' and p.region[1] in DISPATCH:
            if p.terms or not z3.is_bv_value(z3.simplify(p.off)):
                if ef['dispatched'] >= 1:
                    raise SecondFetch('CSimulator_exec_frame fetches a second instruction')
                raise HarnessError('symbolic index into dispatch table %s' % p.region[1])
            off = z3.simplify(p.off).as_signed_long()
            entry, field = divmod(off, ENTRY_SIZE)
            func, lookup, idx, args = self.m.optables[p.region[1]][entry]
            t = self.m.ty(ty)
            if field == 0:
                return llsym.Ptr(('func', func)) if func else llsym.NULL
            if field == 8:
                if not lookup:
                    return llsym.NULL
                gt, _ = self.m.global_type(lookup)
                return self.gep(llsym.Ptr(('table', lookup)), gt, [z3.BitVecVal(i, 64) for i in idx])
            return z3.BitVecVal(args[(field - 16) // 4] & 0xFFFFFFFF, 32)
        return _orig(self, p, ty)
    llsym.Interp.do_call = do_call
    llsym.Interp.load = load


_exec_frame_support()
_CM = {}


def cmachine():
    import csim
    if 'cm' not in _CM:
        _CM['cm'] = csim.CMachine(False, '48K', True)
        gt = _CM['cm'].m.ty('%struct.OpcodeFunction')
        if gt.size() != ENTRY_SIZE:
            raise HarnessError('sizeof(OpcodeFunction) is %d' % gt.size())
    return _CM['cm']


def check_cframe(item):
    """('cframe', table, op): the Python frame loop of process_block against CSimulator_exec_frame (LLVM IR), one frame of one
    instruction: same fetch counter, PC and T reported to the trace callback, same registers and memory when the loop ends"""
    _, table, op = item
    slot = (table, op)
    import skoolkit.rzxplay as rp
    import llsym
    m = machine()
    CM = cmachine()
    st = Stats()
    res = new_res()
    name = 'frame loop Python vs C %s' % harness.item_name(slot)
    pins = z80ref.slot_bytes(slot)
    F1 = m1_count(slot)
    state = {}

    def fn(path):
        m.reset(path)
        pc16 = z3.Extract(15, 0, m.regs0[24])
        arr = m.mem0
        for k, b in enumerate(pins):
            if b is not None:
                arr = z3.Store(arr, pc16 + k, z3.BitVecVal(b, 8))
        m.mem0 = arr
        m.mem.arr = arr
        inp = sym_int('port_reading', 0, 255)
        ptrace = []
        ctx, tracer, n_in = setup_playback(m, path, slot, 0, Rec(), 5)
        block = rp.InputRecording(m.sim.registers[25], [rp.Frame(F1, 0, n_in), rp.Frame(5, n_in, n_in)], [inp][:n_in])
        opts = Obj()
        opts.quiet, opts.stop, opts.cmio, opts.python = True, 1, False, True
        m.mem.guard = {'sim': m.sim, 'fetches': 0, 'mem0': arr, 'tracer': tracer}
        snap = {}
        real_trace = rp.trace_exec
        def rec_trace(tf, c, fc, pc, t0):
            ptrace.append((fc, pc, t0))
            snap['regs'] = m.post_regs()          # state right after the instruction (the loop resets T when the frame ends)
            snap['mem'] = m.mem.arr
        rp.trace_exec = rec_trace
        try:
            rp.process_block(block, opts, 0, ctx)
        finally:
            m.mem.guard = None
            rp.trace_exec = real_trace
        # C side from the same pre-state
        cst = CM.state(m.regs0, m.mem0)
        cst.fields['int_active'] = z3.BitVecVal(0, 32)          # as rzxplay configures the simulator
        it = llsym.Interp(CM.m, CM.m.field_names, cst, path, CM.m.table_dims)
        ef = dict(fetch_count=z3.BitVecVal(F1, 32), trace=[], ret=None, dispatched=0)
        it.exec_frame = ef
        it.call('CSimulator_exec_frame', [llsym.Ptr(('self',)), llsym.Ptr(('pyobj', 'args')), llsym.Ptr(('pyobj', 'kwds'))])
        state.update(inp=inp)
        return snap, ptrace, cst, ef

    def case_of(mod):
        regs, mem, _ = simcheck.model_state(mod, m)
        return dict(kind='cframe', slot=list(slot), regs=regs, mem=mem, inp=mod.eval(state['inp'].e, model_completion=True).as_long() if 'inp' in state else 0)

    def on(p, out):
        res['obligations'] += 1
        if isinstance(out, tuple) and out[0] == 'exception':
            r, mod = p.check(model=True)
            res['violations'].append(dict(key='%s:%s' % (name, type(out[1]).__name__), text='%s: %s' % (name, out[1]), case=case_of(mod)))
            return
        snap, ptrace, cst, ef = out
        structural, diffs, names = [], [], []
        if len(ptrace) != len(ef['trace']):
            structural.append('Python traces %d instruction(s), C %d' % (len(ptrace), len(ef['trace'])))
        else:
            for (fc, pc, t0), (cfc, cpc, ct0) in zip(ptrace, ef['trace']):
                diffs.append(z3.SignExt(32, cfc) != bv(fc)); names.append('fetch counter after the instruction')
                diffs.append(z3.ZeroExt(32, cpc) != bv(pc)); names.append('PC reported to the trace')
                diffs.append(ct0 != bv(t0)); names.append('T reported to the trace')
        # the port reading: the C side draws its own input variable
        extra = []
        if cst.inputs:
            extra.append(cst.inputs[0] == state['inp'].e)
        for i in range(29):
            diffs.append(snap['regs'][i] != cst.regs[i]); names.append(sh.REG_NAMES[i])
        k = z3.BitVec('k_addr', 16)
        diffs.append(z3.Select(snap['mem'], k) != z3.Select(cst.mem, k)); names.append('memory')
        with p.assuming(*extra):
            if structural:
                r, mod = p.check(model=True); which = structural
            else:
                r, mod, which = p.check_any(diffs, names)
        if r == 'unknown':
            res['inconclusive'].append(name); return
        if r == 'sat' or p.failed_obligations():
            if mod is None:
                r, mod = p.check(model=True); which = ['side obligation']
            res['violations'].append(dict(key='%s:%s' % (name, which[0][:40]), text='%s: %s' % (name, ', '.join(which[:5])), case=case_of(mod)))
            return
        res['discharged'] += 1
        res['nontrivial'] += 1
        if not res['samples']:
            res['samples'].append({'item': name, 'frame': F1, 'trace calls': len(ptrace), 'verdict': 'unsat'})

    try:
        explore(fn, stats=st, on_path=on, max_paths=400)
    except Inconclusive as e:
        res['inconclusive'].append('%s: %s' % (name, e))
    return finish(res, st)


def work(item):
    return {'fetch': check_fetch, 'codec': check_codec, 'cframe': check_cframe}[item[0]](item)


# ---------------------------------------------------------------------------
def replay(case):
    import io
    import skoolkit.rzxplay as rp
    import skoolkit.simulator as sm
    if case['kind'] == 'fetch':
        slot = tuple(case['slot'])
        flags = case['flags']
        mem, default = simcheck.mem_from_case(case['mem'])
        regs = list(case['regs'])
        memory = simcheck.mem_list(mem, default)
        sim = sm.Simulator(memory, config={'int_active': 0, 'frame_duration': 69888})
        sim.registers[:] = regs
        rec = Rec()

        class M:
            sim = None
        M.sim = sim
        ctx, tracer, n_in = setup_playback(M, None, slot, flags, rec, case['f2'])
        F1 = m1_count(slot)
        block = rp.InputRecording(regs[25], [rp.Frame(F1, 0, n_in), rp.Frame(case['f2'], n_in, n_in)], [case['inp']][:n_in])
        opts = Obj()
        opts.quiet, opts.stop, opts.cmio, opts.python = True, 1, False, True
        # bound the run: a loop that does not stop after the instruction would run on into arbitrary memory
        budget = {'n': 0}
        real_write = rec.write

        def counted(s):
            budget['n'] += 1
            if budget['n'] > 4:
                raise SecondFetch()
            real_write(s)
        rec.write = counted
        try:
            rp.process_block(block, opts, flags, ctx)
        except SecondFetch:
            return True, 'the frame loop runs on after the %d fetch(es) of the frame: %r' % (F1, rec.lines)
        except Exception as e:
            return True, 'process_block raises %r' % e
        bad = []
        if [x.strip() for x in rec.lines] != ['0']:
            bad.append('fetch counter trace %r, expected ["0"]' % (rec.lines,))
        r0 = [z3.BitVecVal(v, W) for v in regs]
        arr = z3.K(z3.BitVecSort(16), z3.BitVecVal(default, 8))
        for a, v in mem.items():
            arr = z3.Store(arr, z3.BitVecVal(a, 16), z3.BitVecVal(v, 8))
        eregs, emem, cut, fmask = oracle(slot, r0, arr, flags, z3.BitVecVal(case['f2'], W), z3.BitVecVal(case['inp'], 8), concrete=True)
        fm = z3.simplify(fmask).as_long()
        if not z3.is_true(z3.simplify(cut)):
            return False, 'the instruction overwrites its own opcode (outside the claim)'
        for i in range(29):
            if i == 13:
                continue
            e = z3.simplify(eregs[i]).as_long()
            if i == 1:
                if (sim.registers[1] ^ e) & fm:
                    bad.append('F: %d, expected %d (mask %d)' % (sim.registers[1], e, fm))
                continue
            if sim.registers[i] != e:
                bad.append('%s: %d, expected %d' % (sh.REG_NAMES[i], sim.registers[i], e))
        em = z3.simplify(emem)
        for a in simcheck.candidate_addresses(list(sim.registers), regs, mem, default):
            e = z3.simplify(z3.Select(em, z3.BitVecVal(a, 16))).as_long()
            if memory[a] != e:
                bad.append('memory[%d]: %d, expected %d' % (a, memory[a], e)); break
        return bool(bad), '; '.join(bad[:4]) or 'frame played as documented'
    if case['kind'] == 'codec':
        import skoolkit.snapshot as sn
        import tempfile
        import shutil
        _, stype, nframes, first = case['item']
        v = case.get('vals') or {}
        d = tempfile.mkdtemp(prefix='skverif_c20_')
        try:
            sim = sm.Simulator([0] * 65536)
            tracer = rp.RZXTracer.__new__(rp.RZXTracer)
            tracer.border = [(0, 1)]
            tracer.out7ffd = tracer.outfffd = tracer.outfe = 0
            tracer.ay = [0] * 16
            frames, data = [], []
            for k in range(first + nframes):
                n = (k * 2 + 1) % 3
                start = len(data)
                data += [v.get('in%d_%d' % (k, j), 0) for j in range(n)]
                frames.append(rp.Frame(v.get('fc%d' % k, 0), start, len(data)))
            tracer.frames, tracer.data, tracer.frame_index = frames, data, first
            sim.tracer = tracer
            ctx = rp.RZXContext(None)
            ctx.simulator = sim
            ctx.snapshot = sn.Z80(ram=[0] * 49152) if stype == 'z80' else sn.SZX(ram=[0] * 49152)
            f = os.path.join(d, 'out.rzx')
            try:
                rp.write_rzx(f, ctx, [])
                contents = rp.parse_rzx(f)
            except Exception as e:
                return True, 'raises %r' % e
            recs = [c.obj for c in contents if isinstance(c.obj, rp.InputRecording)]
            if len(recs) != 1:
                return True, '%d input recording blocks' % len(recs)
            got = [(fr.fetch_counter, list(recs[0].data[fr.start:fr.end])) for fr in recs[0].frames]
            want = [(fr.fetch_counter, data[fr.start:fr.end]) for fr in frames[first:]]
            return got != want, 'parsed %r, written %r' % (got, want) if got != want else 'frames round-trip'
        finally:
            shutil.rmtree(d, ignore_errors=True)
    if case['kind'] == 'cframe':
        import csim
        slot = tuple(case['slot'])
        mem, default = simcheck.mem_from_case(case['mem'])
        regs = list(case['regs'])
        ext = csim.build_extension(False)
        F1 = m1_count(slot)
        outs = []
        for cls in (sm.Simulator, ext.CSimulator):
            memory = simcheck.mem_list(mem, default)
            cfg = {'int_active': 0, 'frame_duration': 69888, 'fast_djnz': False, 'fast_ldir': False}
            sim = cls(memory, None, None, cfg) if cls is sm.Simulator else cls(bytearray(memory), None, None, cfg)
            for i, v in enumerate(regs):
                if i < len(sim.registers):
                    sim.registers[i] = v
            rec = Rec()

            class M:
                pass
            M.sim = sim
            ctx, tracer, n_in = setup_playback(M, None, slot, 0, rec, 5)
            ctx.trace_line = '{fc} {pc} {t}'
            block = rp.InputRecording(regs[25], [rp.Frame(F1, 0, n_in), rp.Frame(5, n_in, n_in)], [case.get('inp', 0)][:n_in])
            opts = Obj()
            opts.quiet, opts.stop, opts.cmio, opts.python = True, 1, False, True
            n = {'k': 0}
            real_write = rec.write

            def counted(s_, n=n, real_write=real_write):
                n['k'] += 1
                if n['k'] > 4:
                    raise SecondFetch()
                real_write(s_)
            rec.write = counted
            try:
                rp.process_block(block, opts, 0, ctx)
                outs.append((list(rec.lines), list(sim.registers)[:29], [sim.memory[a] for a in range(65536)]))
            except SecondFetch:
                outs.append((list(rec.lines) + ['...'], None, None))
            except Exception as e:
                outs.append((['raises %r' % e], None, None))
        (pl, pr, pm), (cl, cr, cm) = outs
        bad = []
        if pl != cl:
            bad.append('trace (fetch counter, PC, T): Python %r, C %r' % (pl, cl))
        if pr is not None and cr is not None:
            bad += ['%s: Python %d, C %d' % (sh.REG_NAMES[i], pr[i], cr[i]) for i in range(29) if pr[i] != cr[i]]
            if pm != cm:
                bad.append('memory differs')
        return bool(bad), '; '.join(bad[:4]) or 'Python and C play the frame identically'
    return False, 'no replay for ' + case['kind']


def main():
    args = harness.parse_args(PROP)
    if args.replay:
        ok, detail = replay(harness.load_case(args.replay))
        print(('REPRODUCED: ' if ok else 'not reproduced: ') + detail)
        return 1 if ok else 0
    slots = z80ref.all_slots()
    # LD (nn),rr then an interrupt push: four stores at unrelated symbolic addresses make the memory query slow (1-3 min each)
    heavy = {('main', 0x22), ('ED', 0x43), ('ED', 0x53), ('ED', 0x63), ('ED', 0x73), ('DD', 0x22), ('FD', 0x22)}
    if args.tier == 'quick':
        # fetch accounting depends on the prefix class and (for DD/FD) on whether the opcode uses the index register, not on the
        # individual opcode: the quick tier takes every eighth slot of every table; thorough takes all
        quick_ixcb = (0x06, 0x40, 0x46, 0x86, 0xC6)       # the register-copy forms of DDCB/FDCB take 2-3 minutes each
        light = lambda sl: sl not in heavy and (sl[0] not in ('DDCB', 'FDCB') or sl[1] in quick_ixcb)
        chosen = [sl for k, sl in enumerate(slots) if (k % 8 == 0 or (sl[0] in ('DDCB', 'FDCB') and sl[1] in quick_ixcb)) and light(sl)]
    else:
        chosen = slots
    items = [('fetch', t, op, 0) for t, op in chosen]
    special = [HALT_SLOT, EI_SLOT] + list(LDAIR) + [('main', 0x00), ('main', 0xF3), ('ED', 0x4D), ('DD', 0x76), ('FD', 0xFB), ('ED', 0x47)]
    for fl in (1, 2, 3):
        # the flag rules name three opcodes: every eighth slot is enough to see that the others are unaffected
        items += [('fetch', t, op, fl) for t, op in (special if args.tier == 'quick' else special + [sl for k, sl in enumerate(slots) if k % 8 == 0 and sl not in special])]
    csel = [sl for k, sl in enumerate(slots) if (k % 16 == 0 or sl in special or (sl[0] in ('DDCB', 'FDCB') and sl[1] in quick_ixcb)) and light(sl)] if args.tier == 'quick' else slots
    items += [('cframe', t, op) for t, op in csel]
    for stype in ('z80', 'szx'):
        for nframes, first in ((1, 0), (3, 0), (2, 2)) if args.tier == 'quick' else ((1, 0), (3, 0), (2, 2), (5, 1), (8, 0)):
            items.append(('codec', stype, nframes, first))
    if args.only:
        items = [i for i in items if args.only in harness.item_name(i)]
    rep = harness.Report(
        PROP, args,
        functions=['skoolkit.rzxplay.process_block (frame loop, frame-boundary interrupt rules)', 'skoolkit.rzxplay.RZXTracer.next_frame / read_port / set_input_rec', 'skoolkit.rzxplay.trace_exec',
                   'skoolkit.rzxplay.write_rzx / parse_rzx', 'skoolkit.simulator.Simulator closures and accept_interrupt (int_active = 0)', 'skoolkit.traceutils.disassemble', 'c/csimulator.c CSimulator_exec_frame and the opcode handlers it dispatches to (LLVM IR, clang -O1)'],
        bounds={'frame loop': 'one frame holding exactly one instruction, %d opcode slots (quick: every eighth slot of each table; thorough: all 1792), arbitrary CPU state and memory, playback flags 0 for all chosen slots and 1-3 for %s; the next frame has 1-1000 fetches (symbolic) and is not played' % (len(chosen), 'the slots the rules name plus a few others' if args.tier == 'quick' else 'those plus every eighth slot'),
                'codec': 'recordings of 1-%d frames with symbolic fetch counters and 0-2 symbolic port readings per frame, written from frame index 0-2, Z80 and SZX embedded snapshots' % (3 if args.tier == 'quick' else 8),
                'C frame loop': 'CSimulator_exec_frame against the Python loop, one frame of one instruction, %d slots' % len(csel),
                'outside': 'whole recordings (more than one instruction per frame), desynchronisation detection, rzxinfo text, 128K paging during playback, contended playback, frames repeated with the 65535 marker'},
        assumptions=['memory[0] == 0xF3 (rzxplay passes address 0 as the previous PC to accept_interrupt, which defers the interrupt when it finds EI or a DD/FD prefix there; the Spectrum ROMs hold DI)',
                     'the instruction does not overwrite its own first two bytes (the boundary rules inspect memory after it ran)', 'M1 counts: 1; 2 for CB/ED/DDCB/FDCB and effective DD/FD; 1 for an ineffective DD/FD prefix (skoolkit executes it alone)'],
        stubs=['zlib replaced by the identity in rzxplay (codec item)', 'open/read_bin_file replaced by in-memory files (codec item)', 'format() of symbolic integers renders numeral tokens'],
        rule='one case per feasible path per (slot, flags) / per recording shape',
        explanation='The real frame loop runs on a symbolic machine state; its trace output and post-state are compared with the Z80 reference model plus the documented frame-boundary rules by z3.')
    for r in harness.pmap(work, items, args.jobs, init=init_worker, seed=args.seed):
        rep.add(r)
    if rep.paths < rep.items:
        rep.vacuity.append('some work items explored no path')
    return rep.finish(replay_in_subprocess=os.path.abspath(__file__))


if __name__ == '__main__':
    sys.exit(main())
