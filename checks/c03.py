#!/venv/bin/python
"""C03: skool -> control file -> skool round trip (whole textual pipeline, symbolic memory).

For a corpus of annotated control files over a window of symbolic memory, the real CtlParser + SkoolWriter produce a skool
file (numbers are numeral tokens, characters symbolic); the real skool2ctl (SkoolParser + ControlDirectiveComposer + CtlWriter,
base-preserving) turns that text into a control file; the real CtlParser + SkoolWriter regenerate a skool file from it and
the same memory.  z3 decides that the regenerated file equals the original line by line (same text, every number the same
value in the same base, every character the same), and a second trip yields the same control file (fixed point).
"""
import os
import sys

sys.path.insert(0, os.path.join(os.path.dirname(os.path.abspath(__file__)), '..', 'lib'))
sys.path.insert(0, os.path.dirname(os.path.abspath(__file__)))
import bootstrap  # noqa
import z3
import harness
import numerals
import ctlpipe
import c01
from symx import Stats, HarnessError, Inconclusive, SymInt, SymBool, bv, W, explore, sym_int, Path, rng

PROP = 'C03'

# annotated control files (the structural dimension): {n} = window offset helper as in C01
ANNOTATED = [
    ('annotated data', 12, '''b {0} Data block
D {0} Description of the data.
D {0} Second paragraph.
B {0},2,b1:h1 two bytes
N {2} Mid-block comment.
T {2},3 text
B {5},1,m1
W {6},2,h2 a word
S {8},4
E {0} End comment.
i {12}''', None),
    ('annotated code', 10, '''@ {0} label=START
c {0} Routine
D {0} Description.
R {0} A input
R {0} BC other
N {0} Start comment.
C {0},2 first
M {2},8 spanning comment
C {2},5
C {7},3
E {0} End comment one.
E {0} End comment two.
i {10}''', 'jumpsc'),
    ('blank and dotted comments', 6, '''b {0}
B {0},1 .
B {1},1 ..
B {2},2,1
. continuation
B {4},2,c1:1 {braces}
i {6}''', None),
    ('header footer ignoreua', 6, '''> {0} ; header line
> {0} @directive-like
@ {0} ignoreua:t
@ {0} org
b {0} Title with #R30000
@ {0} ignoreua:i
B {0},3,1 three rows
B {3},3 one row
> {0},1 ; footer
i {6}''', None),
    ('sub and fix directives with comments', 7, '''@ {0} isub=LD A,2 ; Load 2 instead
@ {2} ssub=LD HL,0
@ {2} keep
@ {5} bfix=LD (HL),1 ; fixed
@ {5} nowarn
c {0} Routine
C {0},2 first
C {2},3 second
C {5},2 third
i {7}''', 'ld'),
    ('registers without descriptions', 7, '''c {0} Routine
R {0} A
R {0} BC Some description
R {0} HL
R {0} DE Another one
C {0},7
i {7}''', 'ld'),
    ('mixed-type group then statements', 7, '''b {0} Data
M {0},3 group over two types
B {0},1
W {1},2
B {3},2,1 two statements after the group
M {5},2 second group
B {5},1
T {6},1
i {7}''', None),
    ('blank comment on a data statement', 2, '''b {0}
B {0},1,1
.
B {1},1 x
i {2}''', None),
    ('blank mixed-type group', 4, '''b {0}
M {0},3 .
B {0},1
W {1},2
B {3},1
i {4}''', None),
    ('unbalanced braces across lines', 7, '''c {0} Routine
C {0},7 A closing brace } right here in the first part of this comment and, much later on, after enough words to wrap the line, an opening { brace
i {7}''', 'ld'),
    ('multi-line comments', 8, '''t {0} Message
T {0},4,2 first
: second line
T {4},4,c2:2
L {4},4,1
i {8}''', None),
]


NEEDS_K = ('multi-line comments', 'blank and dotted comments')


def init_worker():
    c01.init_worker()
    import skoolkit.skoolctl as sc
    import skoolkit.ctlparser as cp
    import skoolkit.textutils as tu
    numerals.install(sc, cp, tu, with_eval=True, with_chr=True)
    import shims
    shims.install_isinstance(sc, cp, tu)
    import skoolkit.snaskool as ss
    cp.warn = ss.warn = lambda *a: None         # overlap warnings for the deliberately truncated sub-blocks of the corpus


def new_res():
    return {'obligations': 0, 'discharged': 0, 'violations': [], 'inconclusive': [], 'samples': [], 'nontrivial': 0}


def finish(res, st):
    res.update(paths=st.paths, queries=st.queries, solver_s=st.solver_s, realisations=st.realisations)
    return res


def corpus(tier):
    """-> [(name, n, ctl text, code key, base address)]"""
    out = []
    for k, e in enumerate(c01.ctl_corpus(tier)):
        e = e if len(e) > 4 else e + (c01.A,)
        if e[4] != c01.A:
            continue                     # the top-of-memory windows have no terminating i directive to regenerate from
        if e[0] == 'odd W block':
            continue                     # a DEFW that overlaps the next block (sna2skool warns): not a tiling
        if e[3] == 'jumps':
            # jump operands select referrers (entry-point markers) through dictionaries keyed by address: a symbolic target would be
            # realised over 65536 values; the jump fragments are used with concrete targets inside and outside the window instead
            e = (e[0], e[1], e[2], 'jumpsc', e[4])
        out.append(e + (0,))
    for name, n, text, key in ANNOTATED:
        out.append((name, n, text, key, c01.A, 1))       # with skool2ctl -k (explicit line breaks in comments need it)
        if name not in NEEDS_K:
            out.append((name + ' (no -k)', n, text, key, c01.A, 0))
    return out


def token_value(tok):
    hit = numerals.lookup(tok)
    return None if hit is None else (hit[0], hit[1])


def char_value(ch):
    return Path.cur.data.get('symchars', {}).get(ch)


def check_trip(item):
    _, ci, hexmode, lower, sizes, tier = item
    name0, n, ctltext, codekey, A, keep = corpus(tier)[ci]
    st = Stats()
    res = new_res()
    name = 'round trip [%s] %s%s sizes=%r' % (name0, 'hex' if hexmode else 'dec', ' lower' if lower else '', sizes)
    pipe = ctlpipe.Pipe()
    ctl_lines = c01.fmt_ctl(ctltext, A).split('\n')

    def fn(path):
        snap = [0] * 65536
        code = c01.CODE.get(codekey)
        ct = '\n' + '\n'.join(ctl_lines)
        textual = any(x in ct for x in ('\nT ', '\nt ', 'c1', 'c2', 'c3', ':c', ',c'))
        fill = ct.startswith('\ns ') or '\nS ' in ct
        FIXED = [65, 34, 200, 92, 0, 126, 220, 32, 94, 127, 96, 162, 59, 44]
        symk = {0, 2} if textual else set(range(n))
        if codekey == 'ld9':
            symk = {1, 2, 5}
        fillv = None
        for k in range(n):
            if code and code[k] is not None:
                snap[A + k] = code[k]
            elif fill and not textual:
                if fillv is None:
                    fillv = sym_int('m0', 0, 255)
                    path.assume(z3.Or(*[fillv.e == v for v in (0, 1, 32, 34, 65, 92, 127, 128, 255)]))
                snap[A + k] = fillv
            elif k not in symk:
                snap[A + k] = FIXED[k % len(FIXED)]
            else:
                snap[A + k] = sym_int('m%d' % k, 0, 255)
        path.data['snapwin'] = snap[A:A + n]
        base = 16 if hexmode else 10
        kw = dict(base=base, case=1 if lower else 2, sizes=sizes)
        s1 = pipe.skool_from_ctl(snap, ctl_lines, A, A + n + 1, **kw)
        c2 = pipe.ctl_from_skool(s1, keep_lines=keep)
        s2 = pipe.skool_from_ctl(snap, c2, A, A + n + 1, **kw)
        c3 = pipe.ctl_from_skool(s2, keep_lines=keep)
        return s1, c2, s2, c3

    def on(p, out):
        res['obligations'] += 1
        mem = lambda mod: [mod.eval(bv(x), model_completion=True).as_long() if not isinstance(x, int) else x for x in p.data.get('snapwin', [0] * n)]
        case = lambda mod: dict(kind='trip', ci=ci, hex=hexmode, lower=lower, sizes=list(sizes), tier=tier, mem=mem(mod))
        if isinstance(out, tuple) and out[0] == 'exception':
            r, mod = p.check(model=True)
            res['violations'].append(dict(key='%s:exception:%s' % (name, type(out[1]).__name__), text='%s with memory %r raises %r' % (name, mem(mod), out[1]), case=case(mod)))
            return
        s1, c2, s2, c3 = out
        structural, diffs, names = [], [], []
        for label, a, b in (('regenerated skool file', s1, s2), ('control file of the second trip', c2, c3)):
            if len(a) != len(b):
                structural.append('%s has %d lines, the first has %d' % (label, len(b), len(a)))
                continue
            for k, (x, y) in enumerate(zip(a, b)):
                cx, vx = ctlpipe.canon(x, token_value, char_value)
                cy, vy = ctlpipe.canon(y, token_value, char_value)
                if cx != cy or len(vx) != len(vy):
                    structural.append('%s line %d: %r instead of %r' % (label, k + 1, cy[:70], cx[:70]))
                    continue
                for u, v in zip(vx, vy):
                    if isinstance(u, tuple) != isinstance(v, tuple) or (isinstance(u, tuple) and u[1] != v[1]):
                        structural.append('%s line %d: a number changes base' % (label, k + 1))
                        continue
                    uu, vv = (u[0], v[0]) if isinstance(u, tuple) else (u, v)
                    diffs.append(bv(uu) != bv(vv)); names.append('%s line %d: a value differs' % (label, k + 1))
        if structural:
            r, mod = p.check(model=True); which = structural
        else:
            r, mod, which = p.check_any(diffs, names)
        if r == 'unknown':
            res['inconclusive'].append(name); return
        if r == 'sat':
            # one key per control-file shape and kind of failure, whatever the settings (known findings are listed by shape)
            kind = 'fixed point' if which[0].startswith('control file of the second trip') else 'skool file differs'
            res['violations'].append(dict(key='round trip [%s]:%s' % (name0.replace(' (no -k)', ''), kind), text='%s with memory %r: %s' % (name, mem(mod), '; '.join(which[:3])), case=case(mod)))
            return
        res['discharged'] += 1
        res['nontrivial'] += 1
        if not res['samples']:
            res['samples'].append({'item': name, 'ctl': ctl_lines[:6], 'regenerated ctl': c2[:6], 'skool lines': len(s1), 'verdict': 'unsat'})

    try:
        explore(fn, stats=st, on_path=on, max_paths=30000)
    except Inconclusive as e:
        res['inconclusive'].append('%s: %s' % (name, e))
    finally:
        pipe.close()
    return finish(res, st)


def work(item):
    return check_trip(item)


def replay(case):
    name0, n, ctltext, codekey, A, keep = corpus(case['tier'])[case['ci']]
    pipe = ctlpipe.Pipe()
    try:
        snap = [0] * 65536
        snap[A:A + n] = case['mem']
        kw = dict(base=16 if case['hex'] else 10, case=1 if case['lower'] else 2, sizes=tuple(case['sizes']))
        ctl_lines = c01.fmt_ctl(ctltext, A).split('\n')
        try:
            s1 = pipe.skool_from_ctl(snap, ctl_lines, A, A + n + 1, **kw)
            c2 = pipe.ctl_from_skool(s1, keep_lines=keep)
            s2 = pipe.skool_from_ctl(snap, c2, A, A + n + 1, **kw)
            c3 = pipe.ctl_from_skool(s2, keep_lines=keep)
        except Exception as e:
            return True, 'raises %r' % e
        bad = []
        if s1 != s2:
            k = next((i for i, (x, y) in enumerate(zip(s1, s2)) if x != y), min(len(s1), len(s2)))
            bad.append('regenerated skool file differs at line %d: %r instead of %r' % (k + 1, (s2 + [''])[k][:70], (s1 + [''])[k][:70]))
        if c2 != c3:
            bad.append('second control file differs from the first')
        return bool(bad), '; '.join(bad) or 'round trip reproduces the skool file'
    finally:
        pipe.close()


def main():
    args = harness.parse_args(PROP)
    if args.replay:
        ok, detail = replay(harness.load_case(args.replay))
        print(('REPRODUCED: ' if ok else 'not reproduced: ') + detail)
        return 1 if ok else 0
    cps = corpus(args.tier)
    items = []
    size_sets = [(8, 65, 1), (2, 3, 2)] if args.tier == 'quick' else [(8, 65, 1), (2, 3, 2), (1, 1, 1), (3, 66, 4)]
    for ci in range(len(cps)):
        for hexmode, lower in ((False, False), (True, True)) if args.tier == 'quick' else ((False, False), (True, False), (False, True), (True, True)):
            for sizes in size_sets:
                items.append(('trip', ci, hexmode, lower, sizes, args.tier))
    if args.only:
        items = [i for i in items if args.only in harness.item_name(i) or args.only in cps[i[1]][0]]
    rep = harness.Report(
        PROP, args,
        functions=['skoolkit.skoolctl.ControlDirectiveComposer.compose / _get_length* / _get_operand_bases', 'skoolkit.skoolctl.SkoolParser / CtlWriter.write / write_body / get_sub_blocks / write_sub_block',
                   'skoolkit.ctlparser.CtlParser.parse_ctls / _parse_ctl_line / parse_params', 'skoolkit.snaskool.SkoolWriter.write_skool / _format_instruction_comments; Disassembly', 'skoolkit.skoolutils.parse_address_comments / join_comments / parse_entry_header'],
        bounds={'corpus': '%d control files: the C01 corpus (every block and sub-block type, sublength lists with all bases, multipliers, loops, M directives, code fragments) plus %d annotated files (titles, D/R/N/E/M, dots-only and blank comments, '
                          'continuation lines, header/footer blocks, @ directives incl. ignoreua)' % (len(cps), len(ANNOTATED)),
                'memory': 'window of 6-14 symbolic bytes (2 symbolic bytes in character-based shapes)', 'options': 'skool2ctl -b; sna2skool -H/-l on and off, DefbSize/DefmSize/DefwSize sets %r, referrer comments off' % (size_sets,),
                'outside': 'skool files not produced by sna2skool, -k/-h/-l of skool2ctl, -w, whole-program files'},
        assumptions=['numeral tokens / symbolic characters as in C02'], stubs=['int, eval, chr, ord, isinstance shadowed in the modules involved', 'write_line of snaskool/skoolctl replaced by recorders'],
        rule='one case per feasible path per (control file, settings)',
        explanation='The whole textual pipeline runs on text whose numbers and characters are symbolic; equality of the two skool files is decided line by line, value by value.')
    for r in harness.pmap(work, items, args.jobs, init=init_worker, seed=args.seed):
        rep.add(r)
    if rep.paths < rep.items:
        rep.vacuity.append('some work items explored no path')
    return rep.finish(replay_in_subprocess=os.path.abspath(__file__))


if __name__ == '__main__':
    sys.exit(main())
