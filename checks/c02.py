#!/venv/bin/python
"""C02: assembler and disassembler are mutual inverses for every operand, base and address.

Direction 1 (disassemble -> assemble): for every opcode slot the real Disassembler decodes memory whose operand bytes are
symbolic; the text it emits (numbers travel as numeral tokens, characters as symbolic characters) is given to the real
Assembler._assemble; z3 decides that the bytes returned equal the bytes decoded, for every operand value, in every base
(n b c d h m and two-letter combinations), hex/decimal default, either case; relative jumps with a symbolic address
(0..65535, wrap on).  DEFB/DEFM/DEFW/DEFS statements over symbolic data likewise.
Direction 2 (assemble -> disassemble -> assemble): operand spellings in every base are assembled, the bytes are
disassembled and assembled again; the two byte sequences are compared.
"""
import itertools
import os
import sys

sys.path.insert(0, os.path.join(os.path.dirname(os.path.abspath(__file__)), '..', 'lib'))
import bootstrap  # noqa
import z3
import harness
import z80ref
import numerals
from symx import Stats, HarnessError, Inconclusive, SymInt, SymBool, SymArray, bv, W, explore, sym_int, Path, rng

PROP = 'C02'
BASES = ('n', 'b', 'c', 'd', 'h', 'm')
ADDR = 30000


def init_worker():
    import skoolkit
    import skoolkit.z80 as z80
    import skoolkit.disassembler as dis
    numerals.install(skoolkit, z80, dis, with_eval=True, with_chr=True)
    import shims
    shims.install_isinstance(z80, dis, skoolkit)


def new_res():
    return {'obligations': 0, 'discharged': 0, 'violations': [], 'inconclusive': [], 'samples': [], 'nontrivial': 0}


def finish(res, st):
    res.update(paths=st.paths, queries=st.queries, solver_s=st.solver_s, realisations=st.realisations)
    return res


class Cfg:
    def __init__(self, hexmode, lower, opcodes='ALL', wrap=True, **kw):
        from skoolkit.snaskool import Instruction
        self.asm_hex, self.asm_lower, self.opcodes, self.wrap = hexmode, lower, opcodes, wrap
        self.defb_size, self.defm_size, self.defw_size = 8, 66, 1
        self.handle_rst = False
        self.imaker = Instruction
        self.__dict__.update(kw)


class Snap(SymArray):
    """64K snapshot; len 65536; cells pinned by path assumptions"""
    pass


def assemble(asm, operation, address):
    try:
        return asm._assemble(operation, address)
    except (ValueError, KeyError, IndexError, TypeError) as e:
        return ('error', e)


def bytes_differ(orig, out):
    """z3 disjunction: the assembled bytes differ from the decoded ones (None if the lengths differ)"""
    if out is None or (isinstance(out, tuple) and out and out[0] == 'error') or len(out) != len(orig):
        return None
    return [bv(x) != bv(y) for x, y in zip(orig, out)]


def model_bytes(mod, data):
    return [mod.eval(bv(b), model_completion=True).as_long() for b in data]


def operand_count(slot):
    """number of free operand bytes of the slot's instruction (0 = no operand)"""
    t, op = slot
    if t in ('DDCB', 'FDCB'):
        return 1
    if t == 'CB':
        return 0
    # probe the trace disassembler's size table: bytes beyond the opcode bytes are operands
    import skoolkit.traceutils as tu
    pins = z80ref.slot_bytes(slot)
    mem = [0] * 65536
    for k, b in enumerate(pins):
        mem[ADDR + k] = b or 0
    size = tu.disassemble(mem, ADDR)[1]
    return max(0, size - len(pins))


def check_slot(item):
    """('slot', table, op, hexmode, lower)"""
    _, table, op, hexmode, lower = item
    slot = (table, op)
    st = Stats()
    res = new_res()
    import skoolkit.disassembler as dis
    import skoolkit.z80 as z80
    pins = z80ref.slot_bytes(slot)
    nops = operand_count(slot)
    rel = table == 'main' and op in (0x10, 0x18, 0x20, 0x28, 0x30, 0x38)
    if nops == 0:
        bases = ['n']
    elif (table in ('DD', 'FD') and op == 0x36):
        bases = [a + b for a in BASES for b in BASES]
    else:
        bases = list(BASES)
    if table == 'main' and op in (0xD3, 0xDB):
        # a port number is not a signed operand: the property admits 'negative' only where a signed operand is meaningful,
        # and the assembler (rightly) rejects IN A,(-n) / OUT (-n),A
        bases.remove('m')
    name0 = '%s %s%s' % (harness.item_name(slot), 'hex' if hexmode else 'dec', ' lower' if lower else '')
    asm = z80.Assembler()

    for base in bases:
        name = '%s base %s' % (name0, base)

        def fn(path):
            if rel:
                a = sym_int('addr', 0, 65535)
                snap = Snap('snap', 65536)
                for k in range(4):
                    idx = z3.Extract(15, 0, (a + k).e)
                    if k < len(pins) and pins[k] is not None:
                        path.assume(z3.Select(snap.arr, idx) == pins[k])
            else:
                a = ADDR
                snap = [0] * 65536
                for k in range(4):
                    snap[a + k] = pins[k] if k < len(pins) and pins[k] is not None else sym_int('b%d' % k, 0, 255)
            d = dis.Disassembler(snap, Cfg(hexmode, lower))
            ins = d.disassemble(a, a + 1, base)[0]
            out = assemble(asm, ins.operation, a)
            return a, ins, out

        def on(p, out_):
            res['obligations'] += 1
            if isinstance(out_, tuple) and out_[0] == 'exception':
                r, mod = p.check(model=True)
                res['violations'].append(dict(key='%s:exception %s' % (name, type(out_[1]).__name__), text='%s: %r' % (name, out_[1]),
                                              case=dict(kind='slot', slot=list(slot), base=base, hex=hexmode, lower=lower)))
                return
            a, ins, out = out_
            if ins.variant:
                # the disassembler flags a variant opcode sequence: sna2skool emits @bytes and skool2bin uses that byte list
                res['discharged'] += 1
                res['extra'] = {'variant_paths': res.get('extra', {}).get('variant_paths', 0) + 1}
                return
            diffs = bytes_differ(ins.bytes, out)
            if p.data.get('radix_confusion'):
                diffs = None
            if diffs is None:
                r, mod = p.check(model=True)
            else:
                r, mod, _w = p.check_any(diffs)
            if r == 'unknown':
                res['inconclusive'].append(name); return
            if r == 'sat':
                data = model_bytes(mod, ins.bytes)
                av = a if isinstance(a, int) else mod.eval(a.e, model_completion=True).as_long()
                res['violations'].append(dict(key='%s:reassembly' % name, text='%s: bytes %r at %d disassemble to %r which does not assemble back to them' % (name, data, av, numerals.skeleton(ins.operation)),
                                              case=dict(kind='slot', slot=list(slot), base=base, hex=hexmode, lower=lower, addr=av, data=data)))
                return
            res['discharged'] += 1
            res['nontrivial'] += 1
            if len(res['samples']) < 1 and nops:
                res['samples'].append({'slot': name, 'operation': ins.operation, 'obligation': '_assemble(operation, address) == decoded bytes', 'verdict': 'unsat'})

        try:
            explore(fn, stats=st, on_path=on)
        except Inconclusive as e:
            res['inconclusive'].append('%s: %s' % (name, e))
    return finish(res, st)


# ---------------------------------------------------------------------------
def check_data(item):
    """('data', directive, n, hexmode, lower, sublengths): DEFB/DEFM/DEFW/DEFS over n symbolic bytes"""
    _, directive, n, hexmode, lower, subl = item
    st = Stats()
    res = new_res()
    import skoolkit.disassembler as dis
    import skoolkit.z80 as z80
    asm = z80.Assembler()
    name = '%s %d bytes %s%s sublengths %r' % (directive, n, 'hex' if hexmode else 'dec', ' lower' if lower else '', subl)

    def fn(path):
        snap = [0] * 65536
        if directive == 'defs':
            v = sym_int('fill', 0, 255)
            for k in range(n):
                snap[ADDR + k] = v
        else:
            for k in range(n):
                snap[ADDR + k] = sym_int('d%d' % k, 0, 255)
        d = dis.Disassembler(snap, Cfg(hexmode, lower))
        f = {'defb': d.defb_range, 'defm': d.defm_range, 'defw': d.defw_range, 'defs': d.defs_range}[directive]
        stmts = f(ADDR, ADDR + n, subl)
        outs = [(s, assemble(asm, s.operation, s.address)) for s in stmts]
        return stmts, outs

    def on(p, out_):
        res['obligations'] += 1
        if isinstance(out_, tuple) and out_[0] == 'exception':
            res['violations'].append(dict(key='%s:exception' % name, text='%s: %r' % (name, out_[1]), case=dict(kind='data', directive=directive, n=n, hex=hexmode, lower=lower, subl=subl)))
            return
        stmts, outs = out_
        bad = None
        diffs = []
        addr = ADDR
        for s, o in outs:
            if s.address != addr:
                bad = 'statements do not tile the range'
            addr += len(s.bytes)
            d = bytes_differ(s.bytes, o)
            if d is None:
                bad = 'statement %r does not assemble to %d bytes' % (numerals.skeleton(s.operation), len(s.bytes))
            else:
                diffs += d
        if addr != ADDR + n:
            bad = 'statements cover %d bytes of %d' % (addr - ADDR, n)
        if bad or p.data.get('radix_confusion'):
            r, mod = p.check(model=True)
        else:
            r, mod, _w = p.check_any(diffs)
        if r == 'unknown':
            res['inconclusive'].append(name); return
        if r == 'sat':
            data = [mod.eval(bv(b), model_completion=True).as_long() for s in stmts for b in s.bytes]
            res['violations'].append(dict(key='%s:reassembly' % name, text='%s: data %r -> %r: %s' % (name, data, [numerals.skeleton(s.operation) for s in stmts], bad or 'different bytes'),
                                          case=dict(kind='data', directive=directive, n=n, hex=hexmode, lower=lower, subl=subl, data=data)))
            return
        res['discharged'] += 1
        res['nontrivial'] += 1
        if not res['samples']:
            res['samples'].append({'item': name, 'statements': [s.operation for s in stmts][:3], 'verdict': 'unsat'})

    try:
        explore(fn, stats=st, on_path=on)
    except Inconclusive as e:
        res['inconclusive'].append('%s: %s' % (name, e))
    return finish(res, st)


# ---------------------------------------------------------------------------
TEMPLATES = [
    'LD A,{b}', 'LD B,{b}', 'LD HL,{w}', 'LD IX,{w}', 'LD (HL),{b}', 'LD ({w}),A', 'LD A,({w})', 'LD ({w}),HL', 'LD BC,({w})', 'LD SP,({w})',
    'LD (IX+{o}),{b}', 'LD (IY-{o}),{b}', 'LD A,(IX+{o})', 'LD (IY+{o}),C', 'ADD A,{b}', 'ADC A,(IX-{o})', 'SUB {b}', 'AND {b}', 'XOR (IY+{o})', 'CP {b}',
    'JP {w}', 'JP NZ,{w}', 'CALL {w}', 'CALL PE,{w}', 'IN A,({b})', 'OUT ({b}),A', 'RLC (IX+{o})', 'BIT 3,(IY-{o})', 'SET 7,(IX+{o})', 'RES 0,(IX+{o}),B',
    'INC (IX+{o})', 'DEC (IY-{o})', 'LD IXh,{b}', 'DEFB {b}', 'DEFB {b},{b2}', 'DEFW {w}', 'DEFS {n},{b}', 'DEFM {b}',
]
SPELL = ('dec', 'hex', 'hexl', 'bin', 'neg')


def spell(v, kind, width):
    if kind == 'dec':
        return format(v, '')
    if kind == 'hex':
        return '$' + format(v, '04X' if width == 2 else '02X')
    if kind == 'hexl':
        return '$' + format(v, '04x' if width == 2 else '02x')
    if kind == 'bin':
        return '%' + format(v, '016b' if width == 2 else '08b')
    if kind == 'neg':
        return '-' + format((65536 if width == 2 else 256) - v, '')
    raise ValueError(kind)


def check_dir2(item):
    """('dir2', template index, spelling): assemble -> disassemble -> assemble"""
    _, ti, kind = item
    tpl = TEMPLATES[ti]
    st = Stats()
    res = new_res()
    import skoolkit.disassembler as dis
    import skoolkit.z80 as z80
    asm = z80.Assembler()
    name = 'assemble %r operands spelled %s' % (tpl, kind)

    def fn(path):
        vals = {}
        if '{b}' in tpl:
            vals['b'] = spell(sym_int('vb', 1 if kind == 'neg' else 0, 255), kind, 1)
        if '{b2}' in tpl:
            vals['b2'] = spell(sym_int('vb2', 1 if kind == 'neg' else 0, 255), kind, 1)
        if '{w}' in tpl:
            vals['w'] = spell(sym_int('vw', 1 if kind == 'neg' else 0, 65535), kind, 2)
        if '{o}' in tpl:
            vals['o'] = spell(sym_int('vo', 0, 127), 'dec' if kind == 'neg' else kind, 1)
        if '{n}' in tpl:
            vals['n'] = '3'
        text = tpl.format(**vals)
        b1 = assemble(asm, text, ADDR)
        if b1 is None or (isinstance(b1, tuple) and b1 and b1[0] == 'error'):
            return text, b1, None, None
        # what the assembler returns must be bytes
        for b in b1:
            lo, hi = rng(b)
            if (lo < 0 or hi > 255) and path.branch(z3.Or(bv(b) < 0, bv(b) > 255)):
                return text, b1, 'not-bytes', None
        snap = [0] * 65536
        for k, b in enumerate(b1):
            snap[ADDR + k] = b
        d = dis.Disassembler(snap, Cfg(False, False))
        if tpl.startswith('DEF'):
            f = {'DEFB': d.defb_range, 'DEFM': d.defm_range, 'DEFW': d.defw_range, 'DEFS': d.defs_range}[tpl[:4]]
            stmts = f(ADDR, ADDR + len(b1), ((0, 'n'),))
        else:
            stmts = d.disassemble(ADDR, ADDR + 1, 'n')
        b2 = []
        for s in stmts:
            o = assemble(asm, s.operation, s.address)
            if o is None or (isinstance(o, tuple) and o and o[0] == 'error'):
                return text, b1, stmts, None
            b2 += list(o)
        return text, b1, stmts, b2

    def on(p, out_):
        res['obligations'] += 1
        if isinstance(out_, tuple) and out_[0] == 'exception':
            res['violations'].append(dict(key='%s:exception' % name, text='%s: %r' % (name, out_[1]), case=dict(kind='dir2', tpl=tpl, spelling=kind)))
            return
        text, b1, stmts, b2 = out_
        if stmts == 'not-bytes':
            r, mod = p.check(model=True)
            vals = {n_: mod.eval(z3.BitVec(n_, W), model_completion=True).as_long() for n_ in ('vb', 'vb2', 'vw', 'vo')}
            res['violations'].append(dict(key='%s:not-bytes' % name, text='%s with %r: the assembler returns a value outside 0-255' % (name, vals), case=dict(kind='dir2', tpl=tpl, spelling=kind, vals=vals)))
            return
        if stmts is None:
            # the assembler did not accept this spelling for these values: nothing to round-trip (direction 2 is conditional)
            res['discharged'] += 1
            return
        if b2 is None or len(b2) != len(b1) or p.data.get('radix_confusion'):
            r, mod = p.check(model=True)
        else:
            r, mod, _w = p.check_any([bv(x) != bv(y) for x, y in zip(b1, b2)])
        if r == 'unknown':
            res['inconclusive'].append(name); return
        if r == 'sat':
            vals = {n_: mod.eval(z3.BitVec(n_, W), model_completion=True).as_long() for n_ in ('vb', 'vb2', 'vw', 'vo')}
            res['violations'].append(dict(key='%s:roundtrip' % name, text='%s with %r: assembled bytes are disassembled to %r which assembles differently' % (name, vals, [numerals.skeleton(s.operation) for s in stmts]),
                                          case=dict(kind='dir2', tpl=tpl, spelling=kind, vals=vals)))
            return
        res['discharged'] += 1
        res['nontrivial'] += 1
        if not res['samples']:
            res['samples'].append({'item': name, 'text': text, 'verdict': 'unsat'})

    try:
        explore(fn, stats=st, on_path=on)
    except Inconclusive as e:
        res['inconclusive'].append('%s: %s' % (name, e))
    return finish(res, st)


def work(item):
    return {'slot': check_slot, 'data': check_data, 'dir2': check_dir2}[item[0]](item)


# ---------------------------------------------------------------------------
def real_cfg(hexmode, lower):
    return Cfg(hexmode, lower)


def replay(case):
    import skoolkit.disassembler as dis
    import skoolkit.z80 as z80
    asm = z80.Assembler()
    kind = case['kind']
    if kind == 'slot':
        if 'data' not in case:
            return False, 'no concrete input'
        a, data = case['addr'], case['data']
        snap = [0] * 65536
        for k, b in enumerate(data):
            snap[(a + k) & 0xFFFF] = b
        d = dis.Disassembler(snap, real_cfg(case['hex'], case['lower']))
        try:
            ins = d.disassemble(a, a + 1, case['base'])[0]
        except Exception as e:
            return True, 'disassemble raises %r' % e
        out = asm.assemble(ins.operation, a)
        ok = tuple(out or ()) != tuple(ins.bytes)
        return ok, 'bytes %r at %d -> %r -> %r' % (list(ins.bytes), a, ins.operation, list(out or ()))
    if kind == 'data':
        if 'data' not in case:
            return False, 'no concrete input'
        data = case['data']
        snap = [0] * 65536
        snap[ADDR:ADDR + len(data)] = data
        d = dis.Disassembler(snap, real_cfg(case['hex'], case['lower']))
        f = {'defb': d.defb_range, 'defm': d.defm_range, 'defw': d.defw_range, 'defs': d.defs_range}[case['directive']]
        subl = tuple(tuple(x) for x in case['subl'])
        try:
            stmts = f(ADDR, ADDR + case['n'], subl)
        except Exception as e:
            return True, 'raises %r' % e
        got = []
        for s in stmts:
            got += list(asm.assemble(s.operation, s.address) or ())
        return got != data[:case['n']], 'data %r -> %r -> %r' % (data, [s.operation for s in stmts], got)
    if kind == 'dir2':
        vals = case.get('vals')
        if not vals:
            return False, 'no concrete input'
        tpl, sp = case['tpl'], case['spelling']
        v = {}
        if '{b}' in tpl: v['b'] = spell(vals['vb'], sp, 1)
        if '{b2}' in tpl: v['b2'] = spell(vals['vb2'], sp, 1)
        if '{w}' in tpl: v['w'] = spell(vals['vw'], sp, 2)
        if '{o}' in tpl: v['o'] = spell(vals['vo'], 'dec' if sp == 'neg' else sp, 1)
        if '{n}' in tpl: v['n'] = '3'
        text = tpl.format(**v)
        b1 = asm.assemble(text, ADDR)
        if not b1:
            return False, 'assembler rejects %r' % text
        if any(not 0 <= b <= 255 for b in b1):
            return True, '%r assembles to %r, which is not a sequence of bytes' % (text, list(b1))
        snap = [0] * 65536
        snap[ADDR:ADDR + len(b1)] = b1
        d = dis.Disassembler(snap, real_cfg(False, False))
        if tpl.startswith('DEF'):
            f = {'DEFB': d.defb_range, 'DEFM': d.defm_range, 'DEFW': d.defw_range, 'DEFS': d.defs_range}[tpl[:4]]
            stmts = f(ADDR, ADDR + len(b1), ((0, 'n'),))
        else:
            stmts = d.disassemble(ADDR, ADDR + 1, 'n')
        b2 = []
        for s in stmts:
            b2 += list(asm.assemble(s.operation, s.address) or ())
        return list(b1) != b2, '%r -> %r -> %r -> %r' % (text, list(b1), [s.operation for s in stmts], b2)
    return False, 'no replay'


def main():
    args = harness.parse_args(PROP)
    if args.replay:
        ok, detail = replay(harness.load_case(args.replay))
        print(('REPRODUCED: ' if ok else 'not reproduced: ') + detail)
        return 1 if ok else 0
    slots = z80ref.all_slots()
    items = [('slot',) + s + (h, l) for s in slots for h in (False, True) for l in (False, True)]
    sizes = (1, 2, 3, 4) if args.tier == 'quick' else (1, 2, 3, 4, 5, 6, 8)
    for h in (False, True):
        for n in sizes:
            for base in BASES:
                if base == 'c' and n > 4:
                    continue      # every symbolic character forks ~10 ways (printable, quote, backslash, inverted, ...): at most 4
                items.append(('data', 'defb', n, h, False, ((0, base),)))
                items.append(('data', 'defm', n, h, False, ((0, base),)))
                if n % 2 == 0:
                    items.append(('data', 'defw', n, h, False, ((0, base),)))
            if n <= 2:
                # lower case output (hex digits and mnemonics) for every base
                for base in BASES:
                    items.append(('data', 'defb', n, h, True, ((0, base),)))
                    items.append(('data', 'defm', n, h, True, ((0, base),)))
                    if n % 2 == 0:
                        items.append(('data', 'defw', n, h, True, ((0, base),)))
            if n >= 2:
                items.append(('data', 'defb', n, h, False, ((1, 'c'), (n - 1, 'n'))))
                items.append(('data', 'defb', n, h, True, ((n - 1, 'h'), (1, 'd'))))
                if n <= 5:
                    items.append(('data', 'defm', n, h, False, ((n - 1, 'c'), (1, 'b'))))
        for base in BASES:
            if base == 'm':
                continue      # a DEFS size is not a signed operand
            items.append(('data', 'defs', 3, h, False, ((0, base),)))
            items.append(('data', 'defs', 2, h, False, ((0, base), (0, 'h'))))
            items.append(('data', 'defs', 2, h, True, ((0, 'n'), (0, base))))
        items.append(('data', 'defs', 2, h, True, ((0, 'n'), (0, 'm'))))
    items += [('dir2', i, k) for i in range(len(TEMPLATES)) for k in SPELL]
    if args.only:
        items = [i for i in items if args.only in harness.item_name(i)]
    rep = harness.Report(
        PROP, args,
        functions=['skoolkit.disassembler.Disassembler.disassemble / defb_range / defm_range / defw_range / defs_range / get_message and all arg decoders', 'skoolkit.disassembler.OperandFormatter._num_str',
                   'skoolkit.z80.Assembler._assemble and all encoders, _address_offset, eval_int, eval_string, _convert_chars, _convert_nums, split_operands', 'skoolkit.get_int_param', 'skoolkit.textutils.split_unquoted / split_quoted'],
        bounds={'direction 1': 'all 1786 instruction slots x all operand byte values (symbolic) x bases n b c d h m (36 pairs for LD (IX+d),n) x hex/decimal x case; address 30000, symbolic 0..65535 for relative jumps (wrap on)',
                'data statements': 'DEFB/DEFM/DEFW of %s symbolic bytes, DEFS of 2-3, single-base and mixed sublength lists' % (sizes,),
                'direction 2': '%d instruction/statement templates x 5 operand spellings (decimal, $HEX, $hex, %%binary, negative), operand values symbolic' % len(TEMPLATES),
                'outside': 'arithmetic expressions and odd whitespace in operands; quoted-string operands beyond the symbolic-character model'},
        assumptions=['digit rendering of Python format()/int() is abstracted by numeral tokens; chr()/ord() of non-special characters by symbolic characters '
                     '(double quote, backslash, caret, backquote, space, comma, semicolon, colon and apostrophe are realised)'],
        stubs=['int, eval, chr, ord, isinstance shadowed in the namespaces of skoolkit, skoolkit.z80, skoolkit.disassembler (lib/numerals.py, lib/shims.py)'],
        rule='one case per feasible path of disassemble;assemble per (slot, base, default base, case) or statement shape',
        explanation='Bounded symbolic verification of the text round trip: real disassembler -> text with symbolic numerals -> real assembler; byte equality decided by z3 for all operand values.')
    for r in harness.pmap(work, items, args.jobs, init=init_worker, seed=args.seed):
        rep.add(r)
    if rep.paths < rep.items:
        rep.vacuity.append('some work items explored no path')
    return rep.finish(replay_in_subprocess=os.path.abspath(__file__))


if __name__ == '__main__':
    sys.exit(main())
