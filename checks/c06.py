#!/venv/bin/python
"""C06: the Python and C implementations (plain and contended) execute every instruction identically.

Engine A runs the real Python closure, Engine B runs the LLVM IR clang emits for the real C handler of the same dispatch
slot, both from one symbolic machine state; z3 decides equality of all registers, memory and port events per pair of
compatible paths.  Also: accept_interrupt, the dispatch (GET_OPCODE_FUNC) and interrupt test of CSimulator_run against
Simulator.run, OUT/out7ffd paging against Memory/PagingTracer, contend_48k/128k, and the lookup tables entry by entry.
"""
import os
import random
import sys

sys.path.insert(0, os.path.join(os.path.dirname(os.path.abspath(__file__)), '..', 'lib'))
import bootstrap  # noqa
import z3
import harness
import z80ref
import simharness as sh
import simcheck
import csim
import llsym
from symx import Stats, HarnessError, Inconclusive, Abort, SymInt, SymBool, SymArray, SymList, bv, W, explore, sym_int, Path

PROP = 'C06'
TAB = {'main': 'opcodes', 'CB': 'after_CB', 'ED': 'after_ED', 'DD': 'after_DD', 'FD': 'after_FD', 'DDCB': 'after_DDCB', 'FDCB': 'after_FDCB'}


class UFDelays:
    """DELAYS_48K / DELAYS_128K as an uninterpreted function of the index (range 0..6): for comparing two implementations
    that index the same table only congruence matters; the table *contents* are compared entry by entry elsewhere"""

    def __init__(self, name, n):
        self.name, self.n = name, n
        self.f = z3.Function(name, z3.BitVecSort(W), z3.BitVecSort(W))

    def __len__(self):
        return self.n

    def term(self, idx64):
        v = self.f(idx64)
        Path.cur.assume(v >= 0, v <= 6)
        return v

    def __getitem__(self, t):
        if isinstance(t, int):
            t = SymInt(z3.BitVecVal(t, W), t, t)
        if not (t.lo >= 0 and t.hi < self.n):
            Path.cur.obligation('index-in-range:' + self.name, z3.And(t.e >= 0, t.e < self.n))
        return SymInt(self.term(t.e), 0, 6)


UF = {}


def init_worker():
    sh.patch_tables()
    import skoolkit.cmiosimulator as cm
    for name in ('DELAYS_48K', 'DELAYS_128K'):
        real = getattr(cm, name)
        if not isinstance(real, UFDelays):
            UF[name] = UFDelays(name, len(real))
            setattr(cm, name, UF[name])
    _orig_table_fn = csim.table_fn

    def table_fn(name, dims, tabs, mach):
        if name in UF:
            return lambda idx: z3.Extract(7, 0, UF[name].term(z3.simplify(idx[0])))
        return _orig_table_fn(name, dims, tabs, mach)
    csim.table_fn = table_fn
    import shims
    import skoolkit.pagingtracer as pt
    shims.install_isinstance(pt)


def new_res():
    return {'obligations': 0, 'discharged': 0, 'violations': [], 'inconclusive': [], 'samples': [], 'nontrivial': 0}


def finish(res, st):
    res.update(paths=st.paths, queries=st.queries, solver_s=st.solver_s, realisations=st.realisations)
    return res


_CM = {}


def cmachine(contention, mach, tracer):
    key = (contention, mach, tracer)
    if key not in _CM:
        _CM[key] = csim.CMachine(contention, mach, tracer)
    return _CM[key]


def event_diffs(pe, ce):
    """python tracer events vs C events -> (structural mismatch?, diffs, names)"""
    if len(pe) != len(ce) or any(a[0] != b[0] for a, b in zip(pe, ce)):
        return True, [], []
    diffs, names = [], []
    for a, b in zip(pe, ce):
        for j, (x, y) in enumerate(zip(a[1:], b[1:])):
            diffs.append(bv(x) != llsym.Interp.ext(y, W)); names.append('port event %s arg %d' % (a[0], j))
    return False, diffs, names


# ---------------------------------------------------------------------------
class Rec:
    """mix-in for CMIOSimulator: record contend() calls and return a fresh symbolic delay"""
    captured = None

    def _rec(self, t, timings):
        self.captured.append((t, tuple(timings)))
        return sym_int('delay%d' % len(self.captured), 0, 6 * len(timings))

    def contend_48k(self, t, timings):
        return self._rec(t, timings)

    def contend_128k(self, t, timings):
        return self._rec(t, timings)


_PM = {}


def pmachine(cls_name, mach, tracer, record=False):
    key = (cls_name, mach, tracer, record)
    if key in _PM:
        return _PM[key]
    import skoolkit.simulator as sm
    import skoolkit.cmiosimulator as cm
    cls = {'Simulator': sm.Simulator, 'CMIOSimulator': cm.CMIOSimulator}[cls_name]
    if record:
        cls = type('RecCMIO', (Rec, cm.CMIOSimulator), {})
    mem = None
    if mach == '128K':
        import c19
        mem = c19.Flat128('mem', 65536)
        mem.length = 65536
        mem.o7ffd = 0
    m = sh.Machine(cls, mach, sh.Tracer() if tracer else None, mem128=mem)
    _PM[key] = m
    return m


def check_slot(item):
    """('plain'|'cmio'|'cmio-full', mach, tracer, table, op)"""
    kind, mach, tracer, table, op = item
    slot = (table, op)
    contention = kind != 'plain'
    record = kind == 'cmio'
    M = pmachine('CMIOSimulator' if contention else 'Simulator', mach, tracer, record)
    CM = cmachine(contention, mach, tracer)
    st = Stats()
    res = new_res()
    name = '%s %s %s%s' % ({'plain': 'Simulator/CSimulator', 'cmio': 'CMIOSimulator/CCMIOSimulator', 'cmio-full': 'CMIOSimulator/CCMIOSimulator(full)'}[kind],
                           mach, harness.item_name(slot), ' tracer' if tracer else '')
    pins = z80ref.slot_bytes(slot)
    nregs = 30 if contention else 29

    def fn(path):
        M.reset(path, pins)
        o7 = None
        if mach == '128K':
            M.mem.o7ffd = o7 = sym_int('o7ffd', 0, 255)
        if record:
            M.sim.captured = []
        M.sim.opcodes[pins[0]]()
        # the C side sees 128K memory as four 16K slots; the flat view is split at the slot boundaries
        if mach == '48K':
            cst = CM.state(M.regs0, M.mem0)
        else:
            cst = CM.state(M.regs0, None, o7.e, banks=[None] * 8, roms=[None, None])
            cst.flat = M.mem0
            cst.mem128 = [('bank', 0), ('bank', 1), ('bank', 2), ('bank', 3)]       # four slot views of the flat array
        M.cst = cst
        if record:
            cst.recorder = []
        it = llsym.Interp(CM.m, CM.m.field_names, cst, path, CM.m.table_dims)
        if record:
            it.contend_stub = True
        M.it = it
        func, lookup, idx, args = CM.m.optables[TAB[table]][op]
        cst.args = args
        lk = llsym.NULL
        if lookup:
            gt, _ = CM.m.global_type(lookup)
            lk = it.gep(llsym.Ptr(('table', lookup)), gt, [z3.BitVecVal(i, 64) for i in idx])
        it.call(func, [llsym.Ptr(('self',)), lk, llsym.Ptr(('args',))])

    def case(mod):
        regs, mem, inputs = simcheck.model_state(mod, M)
        o7 = mod.eval(M.mem.o7ffd.e, model_completion=True).as_long() if mach == '128K' else 0
        return dict(kind='step', contention=contention, machine=mach, tracer=tracer, slot=list(slot), regs=regs, mem=mem, inputs=inputs, o7ffd=o7)

    def on(p, out):
        res['obligations'] += 1
        if out is not None:
            r, mod = p.check(model=True)
            res['violations'].append(dict(key=name + ':exception', text='%s: %r' % (name, out[1]), case=case(mod)))
            return
        post, cst = M.post_regs(), M.cst
        diffs = [post[i] != cst.regs[i] for i in range(nregs)]
        names = list(sh.REG_NAMES[:nregs])
        k = z3.BitVec('k_addr', 16)
        cmem = cst.mem if mach == '48K' else cst.flat_now()
        diffs.append(z3.Select(M.mem.arr, k) != z3.Select(cmem, k)); names.append('memory')
        if tracer:
            bad, d2, n2 = event_diffs(M.tracer.events, cst.events)
            if bad:
                diffs.append(z3.BoolVal(True)); names.append('port event sequence')
            diffs += d2; names += n2
        if record:
            pcap, ccap = M.sim.captured, cst.recorder
            odd = (M.mem.o7ffd.e & 1) == 1 if mach == '128K' else None
            import c19
            if len(pcap) != len(ccap):
                diffs.append(z3.BoolVal(True)); names.append('contend called %d times in Python, %d in C' % (len(pcap), len(ccap)))
            else:
                for j, ((pt_, ppat), (ct_, curc, cpat)) in enumerate(zip(pcap, ccap)):
                    diffs.append(bv(pt_) != llsym.Interp.ext(ct_, W)); names.append('contend call %d start time' % j)
                    if mach == '128K':
                        diffs.append((curc != 0) != odd); names.append('contend call %d odd-bank flag' % j)
                    # expand C's (port, 0) I/O marker with the documented I/O cases decided on this path
                    exp = []
                    ok = True
                    for a, n in cpat:
                        if n == 0:
                            a16 = z3.Extract(15, 0, a)
                            hi = c19.decide(p, z80ref.contended(mach, a16, odd))
                            low = c19.decide(p, z3.Extract(0, 0, a16) == 1)
                            if hi is None or low is None:
                                ok = False
                                break
                            exp.extend((z3.BoolVal(c_), n_) for c_, n_ in z80ref.io_cycles(hi, low))
                        else:
                            exp.append((z80ref.contended(mach, z3.Extract(15, 0, a), odd), n))
                    if not ok or len(exp) != len(ppat) or any(n != pn for (c_, n), (pa, pn) in zip(exp, ppat)):
                        # different shapes: decide by folding both patterns with the closed-form wait pattern (both contend
                        # functions equal that fold: 'contend' items here and the fold part of C19)
                        if not ok:
                            diffs.append(z3.BoolVal(True)); names.append('I/O port class undecided on the path (call %d)' % j)
                        else:
                            tm_ = SymInt(bv(pt_), 0, sh.MACHINES[mach]['frame'] - 1)
                            d_py = c19.ref_fold(mach, tm_, [(c19.sim_contended(mach, pa, odd), pn) for pa, pn in ppat])
                            d_c = c19.ref_fold(mach, tm_, exp)
                            diffs.append(bv(d_py) != bv(d_c)); names.append('contention patterns give different delays (call %d: Python cycle lengths %s, C %s)' % (j, [pn for pa, pn in ppat], [n for c_, n in exp]))
                    else:
                        for i_, ((c_, n), (pa, pn)) in enumerate(zip(exp, ppat)):
                            diffs.append(c19.sim_contended(mach, pa, odd) != c_); names.append('contention class of cycle %d (call %d)' % (i_, j))
        r, mod, which = p.check_any(diffs, names)
        if r == 'unknown':
            res['inconclusive'].append(name); return
        if r == 'sat':
            which = '; '.join(which)
            res['violations'].append(dict(key='%s:%s' % (name, which[:60]), text='%s: Python and C differ in: %s' % (name, which), case=case(mod)))
            return
        fo = p.failed_obligations()
        if fo:
            res['violations'].append(dict(key='%s:%s' % (name, fo[0][0]), text='%s: %s can fail' % (name, fo[0][0]), case=case(fo[0][2])))
            return
        res['discharged'] += 1
        res['nontrivial'] += 1
        if not res['samples']:
            res['samples'].append({'slot': name, 'c_handler': CM.m.optables[TAB[table]][op][0], 'obligation': 'all %d registers, memory%s equal after the Python closure and the C handler' % (nregs, ', port events' if tracer else ''), 'verdict': 'unsat'})

    try:
        explore(fn, stats=st, on_path=on)
    except Inconclusive as e:
        res['inconclusive'].append('%s: %s' % (name, e))
    return finish(res, st)


# 128K on the C side: the four slots of mem128 are views of one flat 64K array; mem128[k] is the pointer flat + k*0x4000
# (no forking on the slot number)
def _flat_support():
    def load(self, p, ty, _orig=llsym.Interp.load):
        if not p.is_null() and hasattr(self.st, 'flat'):
            if p.region == ('fieldarr', 'mem128'):
                return llsym.Ptr(('flat',), z3.simplify(self.ext(p.off, 64) * 0x4000))
            if p.region in (('fieldarr', 'roms'), ('fieldarr', 'banks')):
                # page selection by out7ffd(): keep the (symbolic) ROM / bank number, do not fork over it
                return llsym.Ptr(('pagesel', p.region[1]), z3.simplify(self.ext(p.off, 64)))
            if p.region == ('flat',):
                off = z3.simplify(p.off)
                self.path.obligation('C index-in-range:memory read', z3.ULT(off, 65536))
                return z3.simplify(z3.Select(self.st.flat, z3.Extract(15, 0, off)))
        return _orig(self, p, ty)

    def store(self, p, ty, v, _orig=llsym.Interp.store):
        if not p.is_null() and hasattr(self.st, 'flat') and p.region == ('fieldarr', 'mem128'):
            k = z3.simplify(p.off)
            if not z3.is_bv_value(k) or isinstance(v, llsym.Ptr) is False or v.region[0] != 'pagesel':
                raise HarnessError('unexpected store to mem128')
            self.st.paged = getattr(self.st, 'paged', {})
            self.st.paged[k.as_long()] = (v.region[1], v.off)
            return
        if not p.is_null() and hasattr(self.st, 'flat') and p.region == ('flat',):
            off = z3.simplify(p.off)
            self.path.obligation('C index-in-range:memory write', z3.ULT(off, 65536))
            self.path.obligation('C write to a ROM', z3.UGE(off, 0x4000))
            self.st.flat = z3.Store(self.st.flat, z3.Extract(15, 0, off), v)
            return
        return _orig(self, p, ty, v)
    llsym.Interp.load = load
    llsym.Interp.store = store
    llsym.CState.flat_now = lambda self: self.flat


_flat_support()


# contend stub for the pattern-capture mode
def _contend_support():
    def do_call(self, env, dst, rhs, _orig=llsym.Interp.do_call):
        if getattr(self, 'contend_stub', False) and re_indirect(rhs):
            import re
            mm = re.match(r'call (?:[a-z_]+ )*?(.+?) (%\d+)\((.*)\)$', rhs)
            fp = env[mm.group(2)]
            if not fp.is_null() and fp.region == ('func', self.st.contend):
                vals = [self.val(env, tok, ty) for ty, tok in (self._ty_tok(a) for a in llsym.split_top(mm.group(3)))]
                tptr, dptr, urc, n, cp = vals
                n = z3.simplify(n).as_long()
                t = self.load(tptr, 'i32')
                pat = []
                for i in range(n):
                    a = self.load(llsym.Ptr(cp.region, z3.simplify(cp.off + 8 * i)), 'i32')
                    c = z3.simplify(self.load(llsym.Ptr(cp.region, z3.simplify(cp.off + 8 * i + 4)), 'i32')).as_long()
                    pat.append((a, c))
                self.st.recorder.append((t, urc, pat))
                dv = z3.BitVec('delay%d' % len(self.st.recorder), W)
                d32 = z3.Extract(31, 0, dv)
                self.store(dptr, 'i32', self.load(dptr, 'i32') + d32)
                # *t advances by the delay and by the T-states of the cycles (4 for an I/O marker)
                self.store(tptr, 'i32', t + d32 + sum((c if c else 4) for a, c in pat))
                return
        return _orig(self, env, dst, rhs)
    llsym.Interp.do_call = do_call


def re_indirect(rhs):
    import re
    return re.match(r'call (?:[a-z_]+ )*?(.+?) (%\d+)\(', rhs) is not None


_contend_support()


# ---------------------------------------------------------------------------
def check_interrupt(item):
    _, contention, mach = item
    M = pmachine('CMIOSimulator' if contention else 'Simulator', '48K', False)
    CM = cmachine(contention, '48K', False)
    st = Stats()
    res = new_res()
    name = 'accept_interrupt %s' % ('contended' if contention else 'plain')
    nregs = 30 if contention else 29

    def fn(path):
        M.reset(path)
        prev = sym_int('prev_pc', 0, 65535)
        M.prev = prev
        M.ret = M.sim.accept_interrupt(M.sim.registers, M.sim.memory, prev)
        cst = CM.state(M.regs0, M.mem0)
        M.cst = cst
        it = llsym.Interp(CM.m, CM.m.field_names, cst, path, CM.m.table_dims)
        M.cret = it.call('accept_interrupt', [llsym.Ptr(('self',)), z3.Extract(31, 0, prev.e)])

    def on(p, out):
        res['obligations'] += 1
        if out is not None:
            res['violations'].append(dict(key=name + ':exception', text='%s: %r' % (name, out[1]), case=dict(kind='none')))
            return
        post, cst = M.post_regs(), M.cst
        diffs = [post[i] != cst.regs[i] for i in range(nregs)]
        k = z3.BitVec('k_addr', 16)
        diffs.append(z3.Select(M.mem.arr, k) != z3.Select(cst.mem, k))
        if isinstance(M.ret, bool):
            diffs.append(z3.BoolVal(M.ret) != (M.cret != 0))
        r, mod, _w = p.check_any(diffs)
        if r == 'unknown':
            res['inconclusive'].append(name); return
        if r == 'sat' or p.failed_obligations():
            if mod is None:
                r, mod = p.check(model=True)
            regs, mem, _ = simcheck.model_state(mod, M)
            res['violations'].append(dict(key=name, text=name + ': Python and C differ', case=dict(kind='interrupt', contention=contention, regs=regs, mem=mem,
                                                                                                  prev_pc=mod.eval(M.prev.e, model_completion=True).as_long())))
            return
        res['discharged'] += 1
        res['nontrivial'] += 1

    try:
        explore(fn, stats=st, on_path=on)
    except Inconclusive as e:
        res['inconclusive'].append('%s: %s' % (name, e))
    return finish(res, st)


def check_tables(item):
    """finite, exhaustive, concrete: every entry of every C table (as the real init_* functions fill it) against the Python table"""
    _, contention = item
    res = new_res()
    res['obligations'] = 1
    n, bad = csim.compare_tables(contention)
    if bad:
        res['violations'].append(dict(key='C table %s' % bad[0][0], text='C lookup table differs from the Python table: %r' % (bad[0],), case=dict(kind='table', contention=contention, entry=list(bad[0]))))
    else:
        res['discharged'] = 1
        res['nontrivial'] = 1
        res['extra'] = {'c_table_entries_compared': n}
    res.update(paths=1, queries=0, solver_s=0.0)
    return res


def check_contend(item):
    """C contend_48k/128k (IR) vs Python contend_* on a symbolic pattern of k memory cycles plus optionally one I/O cycle"""
    _, mach, k, with_io = item[:4]
    lens = item[4] if len(item) > 4 else None
    import skoolkit.cmiosimulator as cm
    M = pmachine('CMIOSimulator', mach, False)
    CM = cmachine(True, mach, False)
    Mm = sh.MACHINES[mach]
    st = Stats()
    res = new_res()
    name = 'contend_%s k=%d%s%s' % (mach.lower(), k, ' +IO' if with_io else '', ' lengths %r' % (lens,) if lens else '')

    def fn(path):
        if mach == '128K':
            M.mem.o7ffd = sym_int('o7ffd', 0, 255)
        t = sym_int('t', 0, Mm['frame'] - 1 - 40 * (k + 1))
        pattern = [(sym_int('a%d' % i, 0, 65535), lens[i] if lens else sym_int('n%d' % i, 1, 4)) for i in range(k)]
        port = sym_int('port', 0, 65535)
        pyp = tuple(pattern) + (tuple(M.sim.io_contention(port)) if with_io else ())
        d = M.sim.contend(t, pyp)
        cst = CM.state([z3.BitVecVal(0, 64)] * 30, z3.K(z3.BitVecSort(16), z3.BitVecVal(0, 8)), M.mem.o7ffd.e if mach == '128K' else None, [None] * 8, [None] * 2)
        it = llsym.Interp(CM.m, CM.m.field_names, cst, path, CM.m.table_dims)
        cst.allocas = {1: {0: z3.Extract(31, 0, t.e)}, 2: {0: z3.BitVecVal(0, 32)}, 3: {}}
        it.nalloca = 3
        cp = [(a, n) for a, n in pattern] + ([(port, 0)] if with_io else [])
        for i, (a, n) in enumerate(cp):
            cst.allocas[3][8 * i] = z3.Extract(31, 0, bv(a))
            cst.allocas[3][8 * i + 4] = z3.Extract(31, 0, bv(n))
        urc = z3.ZeroExt(24, z3.Extract(7, 0, M.mem.o7ffd.e) & 1) if mach == '128K' else z3.BitVecVal(0, 32)
        it.call('contend_%s' % mach.lower(), [llsym.Ptr(('alloca', 1)), llsym.Ptr(('alloca', 2)), urc, z3.BitVecVal(len(cp), 32), llsym.Ptr(('alloca', 3))])
        return t, pattern, port, d, cst.allocas[2][0], cst.allocas[1][0], pyp

    def on(p, out):
        res['obligations'] += 1
        if out[0] == 'exception':
            res['violations'].append(dict(key=name + ':exception', text='%s: %r' % (name, out[1]), case=dict(kind='none')))
            return
        t, pattern, port, d, cd, ct, pyp = out
        tend = bv(t) + bv(d)
        for a, n in pyp:
            tend = tend + bv(n)
        bad = z3.Or(bv(d) != z3.ZeroExt(32, cd), tend != z3.ZeroExt(32, ct))
        r, mod = p.check(bad, model=True)
        if r == 'unknown':
            res['inconclusive'].append(name); return
        if r == 'sat' or p.failed_obligations():
            if mod is None:
                r, mod = p.check(model=True)
            ev = lambda x: x if isinstance(x, int) else mod.eval(bv(x), model_completion=True).as_long()
            res['violations'].append(dict(key=name, text='%s: Python and C contend differ at t=%d pattern=%r port=%d' % (name, ev(t), [(ev(a), ev(n)) for a, n in pattern], ev(port)),
                                          case=dict(kind='contend', machine=mach, t=ev(t), pattern=[(ev(a), ev(n)) for a, n in pattern], port=ev(port) if with_io else None,
                                                    o7ffd=ev(M.mem.o7ffd) if mach == '128K' else 0)))
            return
        res['discharged'] += 1
        res['nontrivial'] += 1

    try:
        explore(fn, stats=st, on_path=on)
    except Inconclusive as e:
        res['inconclusive'].append('%s: %s' % (name, e))
    return finish(res, st)


def check_ctor(item):
    """('ctor',): the contention window and the contention function the C constructor stores for 48K and 128K memory (the only
    per-machine state the harness otherwise supplies itself), read from the IR of CSimulator_init (set_memory is inlined there):
    the stores into the t0 / t1 / contend fields must be the values the Python CMIOSimulator uses."""
    import re
    import skoolkit.cmiosimulator as cm
    from skoolkit.pagingtracer import Memory
    res = new_res()
    st = Stats()
    M = cmachine(True, '48K', False)
    txt = open(csim.prepare(True)).read()
    i = txt.index('define internal i32 @CSimulator_init(')
    body = txt[i:txt.index('\n}\n', i)].split('\n')
    fidx = {n: k for k, n in enumerate(M.m.field_names)}
    geps = {}
    for l in body:
        m = re.match(r'\s*(%\d+) = getelementptr inbounds %struct\.CSimulatorObject, %struct\.CSimulatorObject\* %0, i64 0, i32 (\d+)$', l)
        if m:
            geps[m.group(1)] = int(m.group(2))
    found = []          # (field, value) in program order
    for l in body:
        m = re.match(r'\s*store (?:i32 (-?\d+)|.*?\* @(contend_\w+)), .*?\* (%\d+), align', l)
        if m and geps.get(m.group(3)) in (fidx['t0'], fidx['t1'], fidx['contend']):
            found.append((M.m.field_names[geps[m.group(3)]], int(m.group(1)) if m.group(1) else m.group(2)))
    groups = [dict(found[k:k + 3]) for k in range(0, len(found), 3)]
    want = []
    for mem in ([0] * 65536, Memory()):
        sim = cm.CMIOSimulator(mem)
        want.append({'t0': sim.t0, 't1': sim.t1, 'contend': 'contend_48k' if len(mem) == 65536 else 'contend_128k'})
    res['obligations'] += 1
    if len(found) != 6 or any(set(g) != {'t0', 't1', 'contend'} for g in groups):
        res['harness_errors'] = ['ctor: stores into t0/t1/contend not recognised in the IR of CSimulator_init: %r' % (found,)]
        return finish(res, st)
    bad = [g for g in groups if g not in want] + [w for w in want if w not in groups]
    if bad:
        res['violations'].append(dict(key='C constructor: contention window', text='the C constructor stores %r for the contention window / function; the Python CMIOSimulator uses %r' % (groups, want), case=dict(kind='ctor')))
    else:
        res['discharged'] += 1
        res['nontrivial'] += 1
        res['samples'].append({'item': 'C constructor contention constants', 'C': groups, 'Python': want, 'verdict': 'equal'})
    return finish(res, st)


def replay_ctor(case):
    """concrete: contended 48K and 128K simulators, Python vs the compiled extension, one LD A,(HL) from contended memory at every
    T-state around both ends of the contention window"""
    import skoolkit.cmiosimulator as cm
    from skoolkit.pagingtracer import Memory
    ext = csim.build_extension(True)
    bad = []
    for mach, frame, t0, t1 in (('48K', 69888, 14335, 57245), ('128K', 70908, 14361, 58035)):
        for T in list(range(t0 - 40, t0 + 10)) + list(range(t1 - 900, t1 + 10)):
            outs = []
            for cls in (cm.CMIOSimulator, ext.CCMIOSimulator):
                if mach == '48K':
                    mem = [0] * 65536 if cls is cm.CMIOSimulator else bytearray(65536)
                else:
                    mem = Memory()
                    if cls is not cm.CMIOSimulator:
                        mem.convert()
                mem[0x6000] = 0x7E
                cfg = {'frame_duration': frame, 'int_active': 32 if mach == '48K' else 36, 'fast_djnz': False, 'fast_ldir': False}
                sim = cls(mem, None, None, cfg) if cls is not cm.CMIOSimulator else cls(mem, config=cfg)
                sim.registers[24] = 0x6000
                sim.registers[6], sim.registers[7] = 0x60, 0x10
                sim.registers[25] = T
                sim.run(0x6000)
                outs.append(sim.registers[25] - T)
            if outs[0] != outs[1]:
                bad.append('%s LD A,(HL) at T=%d: Python takes %d T-states, C %d' % (mach, T, outs[0], outs[1]))
    return bool(bad), '; '.join(bad[:3]) or 'Python and C contend identically at both ends of the window'


def work(item):
    k = item[0]
    if k == 'ctor':
        return check_ctor(item)
    if k in ('plain', 'cmio', 'cmio-full'):
        return check_slot(item)
    return {'interrupt': check_interrupt, 'tables': check_tables, 'contend': check_contend, 'selftest': check_selftest,
            'paging': check_paging, 'runloop': check_runloop}[k](item)


# ---------------------------------------------------------------------------
def check_selftest(item):
    """translator validation: concrete states through the IR interpreter vs the compiled extension built from the same source"""
    _, contention, seed = item
    res = new_res()
    rnd = random.Random(seed)
    ext = csim.build_extension(contention)
    cls = ext.CCMIOSimulator if contention else ext.CSimulator
    CM = cmachine(contention, '48K', False)
    slots = z80ref.all_slots()
    rnd.shuffle(slots)
    st = Stats()
    n = 0
    for slot in slots[:120]:
        pins = z80ref.slot_bytes(slot)
        regs = [rnd.randrange(hi + 1) if hi < 70000 else rnd.randrange(200000) for hi in sh.REG_RANGES]
        regs[13] = 0
        regs[24] = rnd.choice([0x3FFE, 0x4000, 0x7FFF, 0xFFFE, rnd.randrange(65536)])
        memory = bytearray(rnd.randrange(256) for _ in range(65536))
        for k_, b in enumerate(pins):
            if b is not None:
                memory[(regs[24] + k_) & 0xFFFF] = b
        m0 = bytes(memory)
        # construct through the same API skoolkit uses
        sim = cls(memory, None, None, {'frame_duration': 69888, 'int_active': 32, 'fast_djnz': False, 'fast_ldir': False})
        for i, v in enumerate(regs):
            sim.registers[i] = v
        sim.run(regs[24])
        want = list(sim.registers)

        def fn(path):
            cst = CM.state([z3.BitVecVal(v, 64) for v in regs], ConcreteMem(m0))
            for dn in ('DELAYS_48K', 'DELAYS_128K'):
                if dn in cst.tables:       # concrete indices: use the concrete closed form (validated against the compiled table)
                    cst.tables[dn] = (lambda mm: lambda idx: z3.BitVecVal(sh.delay_concrete(mm, z3.simplify(idx[0]).as_long()), 8))(dn[7:])
            it = llsym.Interp(CM.m, CM.m.field_names, cst, path, CM.m.table_dims)
            func, lookup, idx, args = CM.m.optables[TAB[slot[0]]][slot[1]]
            cst.args = args
            lk = llsym.NULL
            if lookup:
                gt, _ = CM.m.global_type(lookup)
                lk = it.gep(llsym.Ptr(('table', lookup)), gt, [z3.BitVecVal(i, 64) for i in idx])
            it.call(func, [llsym.Ptr(('self',)), lk, llsym.Ptr(('args',))])
            return cst

        out = explore(fn, stats=st)
        res['obligations'] += 1
        if len(out) != 1 or isinstance(out[0][1], tuple):
            res['harness_errors'] = res.get('harness_errors', []) + ['selftest %s: %r' % (harness.item_name(slot), out[0][1] if out else 'no path')]
            continue
        cst = out[0][1]
        got = [z3.simplify(r).as_long() for r in cst.regs]
        memgot = cst.mem.data
        nregs = 30 if contention else 29
        if got[:nregs] != want[:nregs] or bytes(memgot) != bytes(sim.memory):
            res['harness_errors'] = res.get('harness_errors', []) + ['IR interpreter disagrees with the compiled C module on %s: %r vs %r' % (harness.item_name(slot), got, want)]
        else:
            res['discharged'] += 1
            n += 1
    res['nontrivial'] = n
    res['extra'] = {'translator_validation_cases': n}
    return finish(res, st)


class ConcreteMem:
    """concrete 64K memory posing as a z3 array for the IR interpreter's Select/Store (selftest only)"""

    def __init__(self, data):
        self.data = bytearray(data)


def _concrete_mem_support():
    def load(self, p, ty, _orig=llsym.Interp.load):
        if not p.is_null() and p.region == ('mem',) and isinstance(self.st.mem, ConcreteMem):
            return z3.BitVecVal(self.st.mem.data[z3.simplify(p.off).as_long()], 8)
        return _orig(self, p, ty)

    def store(self, p, ty, v, _orig=llsym.Interp.store):
        if not p.is_null() and p.region == ('mem',) and isinstance(self.st.mem, ConcreteMem):
            self.st.mem.data[z3.simplify(p.off).as_long()] = z3.simplify(v).as_long()
            return
        return _orig(self, p, ty, v)
    llsym.Interp.load = load
    llsym.Interp.store = store


_concrete_mem_support()


def check_paging(item):
    return new_res()


class LoopCut(Exception):
    pass


MINI_ISA = 'NOP (00), EI (FB), DI (F3), JP nn (C3)'


def mini_step(path, regs, mem_arr):
    """effect of the instruction at PC when it is one of NOP / EI / DI / JP nn, as terms (no forking):
    -> (pc', T', iff', r')   regs: list of 64-bit terms"""
    pc16 = z3.Extract(15, 0, regs[24])
    op = z3.Select(mem_arr, pc16)
    path.assume(z3.Or(op == 0x00, op == 0xFB, op == 0xF3, op == 0xC3))
    target = z3.ZeroExt(W - 8, z3.Select(mem_arr, pc16 + 1)) + 256 * z3.ZeroExt(W - 8, z3.Select(mem_arr, pc16 + 2))
    seq = z3.ZeroExt(W - 16, pc16 + 1)
    pc2 = z3.If(op == 0xC3, target, seq)
    t2 = regs[25] + z3.If(op == 0xC3, z3.BitVecVal(10, W), z3.BitVecVal(4, W))
    iff2 = z3.If(op == 0xFB, z3.BitVecVal(1, W), z3.If(op == 0xF3, z3.BitVecVal(0, W), regs[26]))
    r = regs[15]
    r2 = (r & 0x80) | ((r + 1) & 0x7F)
    return pc2, t2, iff2, r2


def check_runloop(item):
    """('runloop', contention, mach): Simulator.run(start, stop, interrupts=True) against CSimulator_run (IR).  The instruction
    handlers are replaced on both sides by the same small instruction set (NOP, EI, DI, JP nn: exact effects on PC, T, IFF, R as
    terms), so that the loop logic - next-interrupt bookkeeping vs T mod frame, the EI / prefix deferral in accept_interrupt, the
    stop test - is explored for every clock value and a counterexample is a real program.  Two iterations; cut before a third."""
    _, contention, mach = item
    N = 2
    M = pmachine('CMIOSimulator' if contention else 'Simulator', '48K', False)
    CM = cmachine(contention, '48K', False)
    fd, ia = M.sim.frame_duration, M.sim.int_active
    st = Stats()
    res = new_res()
    name = 'run(start, stop, interrupts=True) loop, %s' % ('contended' if contention else 'plain')
    nregs = 30 if contention else 29

    def fn(path):
        M.reset(path)
        # bound: the clock starts within the first two frames (the loop depends on T only through T mod frame and multiples of
        # the frame length: behaviour is invariant under shifting T by whole frames); this keeps frame quotients in 0..2
        path.assume(z3.ULT(M.regs0[25], 2 * fd))
        M.sim.registers[25] = SymInt(M.regs0[25], 0, 2 * fd - 1)
        start = sym_int('start', 0, 65535)
        stop = sym_int('stop', 0, 65535)
        calls = {'py': 0, 'c': 0}
        regs = M.sim.registers

        def py_step():
            if calls['py'] >= N:
                raise LoopCut()
            calls['py'] += 1
            pc2, t2, iff2, r2 = mini_step(path, [bv(x) for x in regs], M.mem.arr)
            regs[24] = SymInt(z3.simplify(pc2), 0, 65535)
            regs[25] = SymInt(z3.simplify(t2), 0, 2 * fd + 100)
            regs[26] = SymInt(z3.simplify(iff2), 0, 1)
            regs[15] = SymInt(z3.simplify(r2), 0, 255)

        class Steps(list):
            def __getitem__(self, k):
                return py_step
        real_opcodes = M.sim.opcodes
        M.sim.opcodes = Steps()
        py_cut = False
        try:
            M.sim.run(start, stop, True)
        except LoopCut:
            py_cut = True
        finally:
            M.sim.opcodes = real_opcodes
        cst = CM.state(M.regs0, M.mem0)
        it = llsym.Interp(CM.m, CM.m.field_names, cst, path, CM.m.table_dims)

        def c_step():
            if calls['c'] >= N:
                raise LoopCut()
            calls['c'] += 1
            pc2, t2, iff2, r2 = mini_step(path, cst.regs, cst.mem)
            cst.regs[24], cst.regs[25], cst.regs[26], cst.regs[15] = z3.simplify(pc2), z3.simplify(t2), z3.simplify(iff2), z3.simplify(r2)
        it.runloop = dict(start=z3.Extract(31, 0, start.e), stop=z3.Extract(31, 0, stop.e), interrupts=z3.BitVecVal(1, 32), havoc=c_step)
        c_cut = False
        try:
            it.call('CSimulator_run', [llsym.Ptr(('self',)), llsym.Ptr(('pyobj', 'args')), llsym.Ptr(('pyobj', 'kwds'))])
        except LoopCut:
            c_cut = True
        return py_cut, c_cut, cst, calls

    def on(p, out):
        res['obligations'] += 1
        if isinstance(out, tuple) and out[0] == 'exception':
            res['violations'].append(dict(key=name + ':exception', text='%s: %r' % (name, out[1]), case=dict(kind='none')))
            return
        py_cut, c_cut, cst, calls = out
        post = M.post_regs()
        diffs = [post[i] != cst.regs[i] for i in range(nregs)]
        names = list(sh.REG_NAMES[:nregs])
        k = z3.BitVec('k_addr', 16)
        diffs.append(z3.Select(M.mem.arr, k) != z3.Select(cst.mem, k)); names.append('memory')
        if py_cut != c_cut or calls['py'] != calls['c']:
            diffs.append(z3.BoolVal(True)); names.append('Python ran %d instruction(s)%s, C %d%s' % (calls['py'], ' and continues' if py_cut else '', calls['c'], ' and continues' if c_cut else ''))
        r, mod, which = p.check_any(diffs, names)
        if r == 'unknown':
            res['inconclusive'].append(name); return
        if r == 'sat' or p.failed_obligations():
            if mod is None:
                r, mod = p.check(model=True); which = ['side obligation']
            ev = lambda n_: mod.eval(z3.BitVec(n_, W), model_completion=True).as_long()
            regs, mem, _ = simcheck.model_state(mod, M)
            exits = not py_cut and not c_cut
            res['violations'].append(dict(key='%s:%s:%s' % (name, 'exit' if exits else 'cut', which[0][:40]),
                                          text='%s: Python and C differ in %s (T=%d, start=%d, stop=%d; %s)' % (name, '; '.join(which[:4]), regs[25], ev('start'), ev('stop'), 'both loops exit' if exits else 'cut after two instructions'),
                                          case=dict(kind='runloop', contention=contention, regs=regs, start=ev('start'), stop=ev('stop'), mem=mem, exits=exits)))
            return
        res['discharged'] += 1
        res['nontrivial'] += 1
        if not res['samples']:
            res['samples'].append({'item': name, 'iterations': calls['py'], 'cut': py_cut, 'instruction_set': MINI_ISA, 'obligation': 'same registers/memory and same number of instructions executed', 'verdict': 'unsat'})

    try:
        explore(fn, stats=st, on_path=on)
    except Inconclusive as e:
        res['inconclusive'].append('%s: %s' % (name, e))
    return finish(res, st)


def _runloop_support():
    def do_call(self, env, dst, rhs, _orig=llsym.Interp.do_call):
        rl = getattr(self, 'runloop', None)
        if rl is not None:
            import re
            m = re.match(r'call (?:[a-z_]+ )*?(.+?) (@[\w.]+|%\d+)\((.*)\)$', rhs)
            if m and m.group(2) in ('@PyArg_ParseTupleAndKeywords', '@_PyArg_ParseTupleAndKeywords_SizeT'):
                vals = [self.val(env, tok, ty) for ty, tok in (self._ty_tok(a) for a in llsym.split_top(m.group(3)))]
                for ptr, key in zip(vals[4:7], ('start', 'stop', 'interrupts')):
                    self.store(ptr, 'i32', rl[key])
                env[dst] = z3.BitVecVal(1, 32)
                return
            if m and m.group(2).startswith('%'):
                fp = env[m.group(2)]
                if not fp.is_null() and fp.region == ('func', '__havoc__'):
                    rl['havoc']()
                    return
        return _orig(self, env, dst, rhs)

    def load(self, p, ty, _orig=llsym.Interp.load):
        if getattr(self, 'runloop', None) is not None and not p.is_null() and p.region[0] == 'global' and p.region[1] in ('opcodes', 'after_CB', 'after_ED', 'after_DD', 'after_FD', 'after_DDCB', 'after_FDCB'):
            # dispatch is not the subject of the loop check: every entry is the havoc step
            t = self.m.ty(ty)
            if isinstance(t, llsym.PtrTy) or isinstance(t, llsym.OpaqueTy):
                return llsym.Ptr(('func', '__havoc__'))
            return z3.BitVecVal(0, t.w)
        return _orig(self, p, ty)

    def gep(self, p, bty, idxs, _orig=llsym.Interp.gep):
        if getattr(self, 'runloop', None) is not None and not p.is_null() and p.region[0] == 'global' and p.region[1] == 'opcodes':
            return llsym.Ptr(p.region)          # symbolic index into the dispatch table: irrelevant here
        return _orig(self, p, bty, idxs)
    llsym.Interp.do_call = do_call
    llsym.Interp.load = load
    llsym.Interp.gep = gep


_runloop_support()


# ---------------------------------------------------------------------------
def replay(case):
    kind = case['kind']
    if kind == 'ctor':
        return replay_ctor(case)
    if kind == 'table':
        n, bad = csim.compare_tables(case['contention'])
        return bool(bad), 'C/Python table mismatches: %r' % (bad[:2],)
    if kind == 'runloop' and not case.get('exits'):
        return False, 'the two loops differ only after the cut (no terminating program to replay)'
    if kind not in ('step', 'interrupt', 'runloop'):
        return False, 'no replay for ' + kind
    contention = case['contention']
    ext = csim.build_extension(contention)
    ccls = ext.CCMIOSimulator if contention else ext.CSimulator
    import skoolkit.simulator as sm
    import skoolkit.cmiosimulator as cm
    pcls = cm.CMIOSimulator if contention else sm.Simulator
    mem, default = simcheck.mem_from_case(case['mem'])
    regs = case['regs']
    mach = case.get('machine', '48K')
    Mm = sh.MACHINES[mach]
    cfg = {'frame_duration': Mm['frame'], 'int_active': Mm['int_active'], 'fast_djnz': False, 'fast_ldir': False}
    results = []
    for cls, is_c in ((pcls, False), (ccls, True)):
        flat = simcheck.mem_list(mem, default)
        if mach == '128K':
            import skoolkit.pagingtracer as pt
            o7 = case.get('o7ffd', 0)
            if o7 % 8 in (2, 5):
                return False, 'counterexample not representable with real banks'
            memory = pt.Memory.__new__(pt.Memory)
            banks = [[0] * 0x4000 for _ in range(8)]
            memory.banks = tuple(banks)
            memory.roms = ([0] * 0x4000, [0] * 0x4000)
            memory.memory = [None, banks[5], banks[2], None]
            memory.machine = '128K'
            memory.out7ffd(o7)
            for s_ in range(4):
                memory.memory[s_][:] = flat[s_ * 0x4000:(s_ + 1) * 0x4000]
            if is_c:
                memory.convert()
        else:
            memory = bytearray(flat) if is_c else flat
        sim = cls(memory, None, None, dict(cfg))
        for i, v in enumerate(regs):
            if i < len(sim.registers):
                sim.registers[i] = v
        events = []
        if case.get('tracer'):
            ins = list(case.get('inputs', ()))

            class Tr:
                def read_port(self, registers, port):
                    events.append(('in', port))
                    return ins.pop(0) if ins else 255

                def write_port(self, registers, port, value, offset):
                    events.append(('out', port, value, offset))
            sim.set_tracer(Tr())
        try:
            if kind == 'interrupt':
                sim.accept_interrupt(sim.registers, sim.memory, case['prev_pc'])
            elif kind == 'runloop':
                sim.run(case['start'], case['stop'], True)
            else:
                sim.run(regs[24])
        except Exception as e:
            return True, '%s raises %r' % (cls.__name__, e)
        results.append((list(sim.registers), [sim.memory[a] for a in range(65536)] if mach == '48K' else [memory[a] for a in range(65536)], events))
    (rp, mp, ep), (rc, mc, ec) = results
    nregs = 30 if contention else 29
    bad = []
    for i in range(nregs):
        if rp[i] != rc[i]:
            bad.append('%s: Python %r, C %r' % (sh.REG_NAMES[i], rp[i], rc[i]))
    if mp != mc:
        a = [i for i in range(65536) if mp[i] != mc[i]][0]
        bad.append('memory[%d]: Python %r, C %r' % (a, mp[a], mc[a]))
    if ep != ec:
        bad.append('port events: Python %r, C %r' % (ep, ec))
    return bool(bad), '; '.join(bad[:5]) or 'Python and the compiled C module agree on this input'


# ---------------------------------------------------------------------------
def main():
    args = harness.parse_args(PROP)
    if args.replay:
        ok, detail = replay(harness.load_case(args.replay))
        print(('REPRODUCED: ' if ok else 'not reproduced: ') + detail)
        return 1 if ok else 0
    # emit IR and build helper libraries once, before forking
    csim.prepare(False)
    csim.prepare(True)
    slots = z80ref.all_slots()
    io = simcheck.IO_SLOTS
    items = [('tables', False), ('tables', True), ('selftest', False, args.seed), ('selftest', True, args.seed), ('ctor',)]
    items += [('plain', '48K', False) + s for s in slots]
    items += [('plain', '48K', True) + s for s in slots if s in io]
    items += [('cmio', '48K', False) + s for s in slots]
    items += [('cmio', '48K', True) + s for s in slots if s in io]
    items += [('interrupt', False, '48K'), ('interrupt', True, '48K'), ('runloop', False, '48K'), ('runloop', True, '48K')]
    for mach in ('48K', '128K'):
        items += [('contend', mach, 1, False), ('contend', mach, 2, False), ('contend', mach, 0, True)]
    sel128 = [s for n, s in enumerate(slots) if n % 32 == args.seed % 32 or s in io] if args.tier == 'quick' else slots
    items += [('plain', '128K', False) + s for s in sel128]
    items += [('cmio', '128K', False) + s for s in sel128]
    if args.tier == 'thorough':
        items += [('plain', '128K', True) + s for s in slots if s in io]
        items += [('cmio', '128K', True) + s for s in slots if s in io]
    if args.only:
        items = [i for i in items if args.only in harness.item_name(i)]
    rep = harness.Report(
        PROP, args,
        functions=['skoolkit.simulator.Simulator.* closures', 'skoolkit.cmiosimulator.CMIOSimulator.* closures', 'c/csimulator.c: all 75 opcode handlers (plain and -DCONTENTION builds, via LLVM IR)',
                   'c/csimulator.c: accept_interrupt, contend_48k, contend_128k, dispatch tables opcodes/after_*', 'c/csimulator.c init_* lookup tables (compiled, every entry compared)'],
        bounds={'instructions': 1, 'state': 'all registers, memory, T, port inputs symbolic under the state invariant', 'slots': 'all 1786 instruction slots, both builds, 48K; 128K: I/O slots + every 32nd (quick), all (thorough)',
                'contend': 'patterns of 1 and 2 memory cycles (symbolic address, length 1..4) and of one I/O cycle (symbolic port), symbolic start time; the loop body is the same for every cycle', 'outside': 'the run/trace/exec_frame loops around the handlers, CSimulator_load, tools --python switch'},
        assumptions=['state invariant as in C05 (C08 shows it is preserved by every Python step)', 'Python exceptions and allocation failure inside tracer callbacks are out of scope',
                     'the IR reader lib/llsym.py is trusted (validated each run against the compiled module on concrete states)'],
        stubs=['Py_BuildValue+PyObject_Call on a tracer become symbolic port events; PyErr_Occurred returns 0; reference counting ignored', 'C lookup-table loads are answered by the Python table formula '
               '(justified by the exhaustive concrete comparison of the compiled tables)', 'cmio (quick): contend() replaced on both sides by a recorder; the real contend functions are compared separately',
               '128K: both sides see a flat 64K view split at the slot boundaries'],
        rule='one case per feasible joint path (Python closure; C handler) per slot and configuration',
        explanation='Translation-validation style bounded symbolic verification: the two implementations of every instruction are executed symbolically from one state and z3 decides equality of the complete post-states.')
    for r in harness.pmap(work, items, args.jobs, init=init_worker, seed=args.seed, first=lambda i: i[0] in ('contend', 'selftest', 'tables', 'interrupt', 'runloop')):
        rep.add(r)
    if rep.paths < rep.items:
        rep.vacuity.append('some work items explored no path')
    return rep.finish(replay_in_subprocess=os.path.abspath(__file__))


if __name__ == '__main__':
    sys.exit(main())
