#!/venv/bin/python
"""C13: simulated LOAD results do not depend on speed-up options (accelerator arithmetic).

dec_a    LoadTracer.dec_a (the 'DEC A: JR NZ,$-1' / 'DEC A: JP NZ,$-1' accelerator) is shown equal to the loop it replaces by
         induction over A: from an arbitrary state, accelerated(S) == accelerated(one real iteration(S)) when the loop goes round
         again, and == the real 'DEC A; JR/JP NZ' falling through when it does not (real Simulator closures on both sides; all
         registers incl. F, R, T, PC and memory compared by z3).  The C dec_a handler (LLVM IR) is shown equal to the Python one.
loops    for each of the 53 tape-sampling loop signatures in loadsample.ACCELERATORS: the code of the signature (wildcard bytes
         symbolic) is executed with the real Simulator closures for one trip round the loop without an edge; z3 shows the trip
         takes exactly `loop_time` T-states, advances R by `loop_r_inc`, changes the counter register by exactly +-1, and comes
         back to the IN instruction - the per-iteration facts the fast-forward arithmetic in _read_port multiplies.
"""
import os
import sys

sys.path.insert(0, os.path.join(os.path.dirname(os.path.abspath(__file__)), '..', 'lib'))
import bootstrap  # noqa
import z3
import harness
import simharness as sh
import simcheck
from symx import Stats, HarnessError, Inconclusive, Abort, SymInt, SymBool, SymArray, bv, W, explore, sym_int, Path, rng

PROP = 'C13'
BASE = 40000


def init_worker():
    sh.patch_tables()
    import skoolkit.loadtracer as lt
    import symtables
    # the tracer has its own copies of the DEC / INC tables: derive them from its own source
    tabs = symtables.load_tables(os.path.join(bootstrap.REPO, 'skoolkit/loadtracer.py'), names={'DEC', 'DEC0', 'INC0'})
    n, bad = symtables.validate(tabs, lt)
    if bad:
        raise HarnessError('loadtracer table translation mismatch: %r' % bad[:2])
    for k, v in tabs.items():
        setattr(lt, k, v)
    lt.R1 = sh._TABLES['R1']


def new_res():
    return {'obligations': 0, 'discharged': 0, 'violations': [], 'inconclusive': [], 'samples': [], 'nontrivial': 0}


def finish(res, st):
    res.update(paths=st.paths, queries=st.queries, solver_s=st.solver_s, realisations=st.realisations)
    return res


def snapshot(m):
    return [bv(r) for r in m.sim.registers], m.mem.arr


def restore(m, regs, arr):
    m.sim.registers[:] = [SymInt(r, 0, hi) if not z3.is_bv_value(r) else SymInt(r) for r, hi in zip(regs, sh.REG_RANGES)]
    m.mem.arr = arr


def check_dec_a(item):
    _, kind = item
    import skoolkit.loadtracer as lt
    m = simcheck.get_machine('Simulator', '48K', False)
    st = Stats()
    res = new_res()
    name = 'dec_a accelerator (%s loop)' % kind.upper()
    tracer = lt.LoadTracer.__new__(lt.LoadTracer)
    tracer.simulator = m.sim
    tracer.dec_a_jr_hits = tracer.dec_a_jp_hits = tracer.dec_a_misses = 0
    acc = tracer.dec_a(kind == 'jr', kind == 'jp')
    size = 3 if kind == 'jr' else 4

    def fn(path):
        m.reset(path)
        pc16 = z3.Extract(15, 0, m.regs0[24])
        path.assume(z3.Select(m.mem0, pc16) == 0x3D, m.regs0[26] == 0)
        if kind == 'jr':
            path.assume(z3.Select(m.mem0, pc16 + 1) == 0x20, z3.Select(m.mem0, pc16 + 2) == 0xFD)
        else:
            path.assume(z3.Select(m.mem0, pc16 + 1) == 0xC2, z3.Select(m.mem0, pc16 + 2) == z3.Extract(7, 0, pc16), z3.Select(m.mem0, pc16 + 3) == z3.Extract(15, 8, pc16))
        m.sim.registers[26] = 0
        r0, a0 = snapshot(m)
        acc()
        fast = snapshot(m)
        restore(m, r0, a0)
        m.sim.registers[26] = 0
        m.sim.opcodes[0x3D]()                       # DEC A
        m.sim.opcodes[0x20 if kind == 'jr' else 0xC2]()   # JR NZ / JP NZ
        again = m.sim.registers[24] == SymInt(m.regs0[24], 0, 65535)
        if bool(again):
            acc()                                   # induction hypothesis: the accelerator is right for A - 1
        slow = snapshot(m)
        return fast, slow

    def on(p, out):
        res['obligations'] += 1
        if isinstance(out, tuple) and out[0] == 'exception':
            res['violations'].append(dict(key=name + ':exception', text='%s raises %r' % (name, out[1]), case=dict(kind='dec_a', loop=kind)))
            return
        (fr, fa), (sr, sa) = out
        diffs = [a != b for a, b in zip(fr, sr)]
        names = list(sh.REG_NAMES)
        k = z3.BitVec('k_addr', 16)
        diffs.append(z3.Select(fa, k) != z3.Select(sa, k)); names.append('memory')
        r, mod, which = p.check_any(diffs, names)
        if r == 'unknown':
            res['inconclusive'].append(name); return
        if r == 'sat' or p.failed_obligations():
            if mod is None:
                r, mod = p.check(model=True); which = ['side obligation']
            regs, mem, _ = simcheck.model_state(mod, m)
            res['violations'].append(dict(key='%s:%s' % (name, which[0]), text='%s: with A=%d the accelerated result differs from the loop in %s' % (name, regs[0], ', '.join(which)),
                                          case=dict(kind='dec_a', loop=kind, regs=regs, mem=mem)))
            return
        res['discharged'] += 1
        res['nontrivial'] += 1
        if not res['samples']:
            res['samples'].append({'item': name, 'obligation': 'acc(S) == acc(iteration(S)) if the loop repeats, == DEC A; J* NZ otherwise (induction over A)', 'verdict': 'unsat'})

    try:
        explore(fn, stats=st, on_path=on)
    except Inconclusive as e:
        res['inconclusive'].append('%s: %s' % (name, e))
    return finish(res, st)


def check_dec_a_c(item):
    """Python dec_a closure vs the C dec_a handler (IR), both accelerations enabled"""
    import skoolkit.loadtracer as lt
    import csim
    import llsym
    m = simcheck.get_machine('Simulator', '48K', False)
    CM = csim.CMachine(False, '48K', False)
    st = Stats()
    res = new_res()
    name = 'dec_a Python vs C'
    tracer = lt.LoadTracer.__new__(lt.LoadTracer)
    tracer.simulator = m.sim
    tracer.dec_a_jr_hits = tracer.dec_a_jp_hits = tracer.dec_a_misses = 0
    acc = tracer.dec_a(True, True)

    def fn(path):
        m.reset(path)
        # the handler is only ever installed for opcode 0x3D
        path.assume(z3.Select(m.mem0, z3.Extract(15, 0, m.regs0[24])) == 0x3D)
        acc()
        cst = CM.state(m.regs0, m.mem0)
        cst.args = [0, 0, 0, 1, 1, 0, 0]
        it = llsym.Interp(CM.m, CM.m.field_names, cst, path, CM.m.table_dims)
        gt, _ = CM.m.global_type('DEC')
        it.call('dec_a', [llsym.Ptr(('self',)), it.gep(llsym.Ptr(('table', 'DEC')), gt, [z3.BitVecVal(0, 64)]), llsym.Ptr(('args',))])
        return cst

    def on(p, out):
        res['obligations'] += 1
        if isinstance(out, tuple) and out[0] == 'exception':
            res['violations'].append(dict(key=name + ':exception', text='%s: %r' % (name, out[1]), case=dict(kind='none')))
            return
        cst = out
        post = m.post_regs()
        diffs = [post[i] != cst.regs[i] for i in range(29)]
        k = z3.BitVec('k_addr', 16)
        diffs.append(z3.Select(m.mem.arr, k) != z3.Select(cst.mem, k))
        r, mod, which = p.check_any(diffs, list(sh.REG_NAMES[:29]) + ['memory'])
        if r == 'unknown':
            res['inconclusive'].append(name); return
        if r == 'sat' or p.failed_obligations():
            if mod is None:
                r, mod = p.check(model=True)
            regs, mem, _ = simcheck.model_state(mod, m)
            res['violations'].append(dict(key=name, text='%s differ in %s from registers %r, memory %r' % (name, which, regs, mem), case=dict(kind='dec_a_c', regs=regs, mem=mem)))
            return
        res['discharged'] += 1
        res['nontrivial'] += 1

    try:
        explore(fn, stats=st, on_path=on)
    except Inconclusive as e:
        res['inconclusive'].append('%s: %s' % (name, e))
    return finish(res, st)


# ---------------------------------------------------------------------------
def check_loop(item):
    _, accname = item
    from skoolkit.loadsample import ACCELERATORS, BYTE, Accelerator
    spec = ACCELERATORS[accname]
    acc = Accelerator(*spec)
    code = acc.code
    m = simcheck.get_machine('Simulator', '48K', True)
    st = Stats()
    res = new_res()
    name = 'accelerator %s' % accname
    in_addr = BASE + acc.c0
    state = {'returned': 0}

    def fn(path):
        m.reset(path)
        for k, b in enumerate(code):
            # wildcard bytes are skipped code or the operand of a jump out of the loop: they are never executed on a trip round
            # the loop; fixing them to 0 sends such a jump to address 0, i.e. out of the loop
            path.assume(z3.Select(m.mem0, z3.BitVecVal(BASE + k, 16)) == (0 if b is BYTE else b))
        # an absolute jump that closes the loop has its operand outside the signature: it goes back to the loop start
        last = code[-1]
        if last in (0xC2, 0xCA, 0xC3, 0xD2, 0xDA, 0xE2, 0xEA, 0xF2, 0xFA):
            path.assume(z3.Select(m.mem0, z3.BitVecVal(BASE + len(code), 16)) == BASE % 256, z3.Select(m.mem0, z3.BitVecVal(BASE + len(code) + 1, 16)) == BASE // 256)
        path.assume(m.regs0[24] == in_addr, m.regs0[26] == 0)
        # the stack lies away from the loop and a RET leaves it (returns to address 0): trips that leave the loop are discarded
        sp16 = z3.Extract(15, 0, m.regs0[12])
        path.assume(m.regs0[12] >= 50000, m.regs0[12] <= 60000, z3.Select(m.mem0, sp16) == 0, z3.Select(m.mem0, sp16 + 1) == 0)
        m.sim.registers[24] = in_addr
        # the counter does not expire on this trip (the fast-forward count is capped at 255 - counter / counter - 1 for that reason)
        if acc.inc:
            path.assume(m.regs0[acc.counter] < 254)
        else:
            path.assume(m.regs0[acc.counter] > 1)
        # wildcard bytes are never executed on a trip round the loop: reaching one means the trip left the loop
        regs = m.sim.registers
        n = 0
        while True:
            pc = regs[24]
            if not isinstance(pc, int):
                inside = (pc >= BASE) & (pc < BASE + len(code))
                if not (inside if isinstance(inside, bool) else bool(inside)):
                    raise Abort()      # left the loop (edge detected, counter expired, RET taken): not a trip round the loop
            pcv = pc if isinstance(pc, int) else path.realise(pc.e, 'pc')
            if n and pcv == in_addr:
                break
            if not (BASE <= pcv < BASE + len(code)) or n > 16:
                raise Abort()
            regs[24] = pcv
            if BASE <= pcv < BASE + len(code) and code[pcv - BASE] is BYTE:
                raise Abort()
            opc = m.mem[pcv]
            m.sim.opcodes[path.realise(opc.e, 'opcode')]()
            n += 1
        return n

    def on(p, out):
        res['obligations'] += 1
        if isinstance(out, tuple) and out[0] == 'exception':
            res['violations'].append(dict(key=name + ':exception', text='%s: executing the signature raises %r' % (name, out[1]), case=dict(kind='loop', acc=accname)))
            return
        state['returned'] += 1
        post = m.post_regs()
        dt = post[25] - m.regs0[25]
        r0 = m.regs0[15]
        r_exp = (r0 & 0x80) | ((r0 + acc.loop_r_inc) & 0x7F)
        c0 = m.regs0[acc.counter]
        c_exp = (c0 + (1 if acc.inc else -1)) & 0xFF
        diffs = [dt != acc.loop_time, post[15] != r_exp, post[acc.counter] != c_exp]
        names = ['loop_time (%d)' % acc.loop_time, 'loop_r_inc (%d)' % acc.loop_r_inc, 'counter register changes by %+d' % (1 if acc.inc else -1)]
        if any(code[i:i + 2] == [0xED, 0x4F] for i in range(len(code) - 1)):
            # the loop itself loads R from A (LD R,A): the table marks the R increment as irrelevant
            diffs[1] = z3.BoolVal(False)
        k = z3.BitVec('k_addr', 16)
        diffs.append(z3.Select(m.mem.arr, k) != z3.Select(m.mem0, k)); names.append('the loop writes memory')
        if acc.ear_mask:
            diffs.append(post[acc.ear] != m.regs0[acc.ear]) if acc.ear != acc.counter else None
        diffs = [d for d in diffs if d is not None]
        r, mod, which = p.check_any(diffs, names)
        if r == 'unknown':
            res['inconclusive'].append(name); return
        if r == 'sat' or p.failed_obligations():
            if mod is None:
                r, mod = p.check(model=True); which = ['side obligation']
            res['violations'].append(dict(key='%s:%s' % (name, which[0]), text='%s: one trip round the loop disagrees with the table entry: %s (measured T delta %s)' % (name, ', '.join(which), mod.eval(dt, model_completion=True)),
                                          case=dict(kind='loop', acc=accname)))
            return
        res['discharged'] += 1
        res['nontrivial'] += 1
        if not res['samples']:
            res['samples'].append({'item': name, 'instructions_per_trip': out, 'loop_time': acc.loop_time, 'loop_r_inc': acc.loop_r_inc, 'verdict': 'unsat'})

    try:
        explore(fn, stats=st, on_path=on)
    except Inconclusive as e:
        res['inconclusive'].append('%s: %s' % (name, e))
    if not state['returned'] and not res['violations'] and not res['inconclusive']:
        res['vacuity'] = ['%s: no path goes round the loop' % name]
    return finish(res, st)


# ---------------------------------------------------------------------------
def check_ffwd(item):
    """('ffwd', accelerator): the fast-forward of a recognised sampling loop in LoadTracer._read_port, from a symbolic clock, next
    edge time, counter, R and EAR state.  With the per-trip facts of check_loop this gives equivalence with n real trips:
    the state moves by a whole number n of trips (T, R, counter, flags of the last INC/DEC), no sample that is skipped could
    have seen the edge (T + (n-1) * loop_time <= edge), the counter does not reach its end value, and the edge index
    advances exactly when the clock has passed the edge."""
    _, accname = item
    from skoolkit.loadsample import ACCELERATORS, BYTE, Accelerator
    import skoolkit.loadtracer as lt
    acc = Accelerator(*ACCELERATORS[accname])
    st = Stats()
    res = new_res()
    name = 'fast-forward %s' % accname
    state = {}
    pc = BASE + acc.c0
    memory = [0] * 65536
    for k, b in enumerate(acc.code):
        memory[BASE + k] = 0 if b is BYTE else b

    def fn(path):
        regs = [0] * 30
        T0 = sym_int('T', 0, 1 << 22)
        # the next edge relative to the clock: up to ~17 ms ahead (pilot pulses are 0.6 ms, the longest data pulse of the ROM scheme 0.5 ms), or already passed
        delta = sym_int('edge_delta', -1000, 60000)
        edge = T0 + delta
        state['delta'] = delta
        cnt = sym_int('counter', 0, 255)
        r0 = sym_int('R', 0, 255)
        ear = sym_int('earreg', 0, 255)
        idx = sym_int('index', 2, 40)
        regs[25], regs[acc.counter], regs[15], regs[24], regs[26] = T0, cnt, r0, pc, 0
        if acc.ear_mask and acc.ear != acc.counter:
            regs[acc.ear] = ear
        t = lt.LoadTracer.__new__(lt.LoadTracer)
        sim = type('S', (), {})()
        sim.memory, sim.registers, sim.frame_duration, sim.int_active = memory, regs, 69888, 32
        t.simulator = sim
        t.frame_duration = 69888
        t.in_min_addr = 0x4000
        t.state = [edge, idx, 0, 1000, 1, 0, 0, 0, 0, 0]
        t.edges = None
        t.blocks = None
        t.block_index = 0
        t.max_index = 2000
        t.accelerators = [Accelerator(*ACCELERATORS[accname])]
        t.out7ffd = 0x10
        t.outfffd = 0
        t.ay = [0] * 16
        t.tsl_misses = 0
        t.list_accelerators = False
        value = t._read_port()(regs, 0x7FFE)
        state.update(T0=T0, edge=edge, cnt=cnt, r0=r0, idx=idx, regs=regs, tracer=t, ear=ear)
        return value

    def on(p, out):
        res['obligations'] += 1
        g = lambda mod, x: mod.eval(bv(x), model_completion=True).as_long()
        case = lambda mod: dict(kind='ffwd', acc=accname, T=g(mod, state['T0']), edge=g(mod, state['edge']), counter=g(mod, state['cnt']), R=g(mod, state['r0']), index=g(mod, state['idx']), ear=g(mod, state['ear']))
        if isinstance(out, tuple) and out[0] == 'exception':
            r, mod = p.check(model=True)
            res['violations'].append(dict(key='%s:exception' % name, text='%s raises %r' % (name, out[1]), case=case(mod)))
            return
        regs = state['regs']
        T0, edge, cnt, r0 = (state[k].e for k in ('T0', 'edge', 'cnt', 'r0'))
        T1, c1, R1_, F1 = bv(regs[25]), bv(regs[acc.counter]), bv(regs[15]), bv(regs[1])
        lt_ = acc.loop_time
        n = z3.BitVec('n_trips', W)
        step = (c1 - cnt) if acc.inc else (cnt - c1)
        diffs, names = [], []
        # the state moved by a whole number of trips n = counter change
        diffs.append(T1 != T0 + step * lt_); names.append('T does not advance by (counter change) x loop_time')
        diffs.append(z3.Or(step < 0, step > 255)); names.append('counter moves the wrong way')
        diffs.append(R1_ != ((r0 & 0x80) | ((r0 + step * acc.loop_r_inc) & 0x7F))); names.append('R does not advance by (counter change) x loop_r_inc')
        # no skipped sample could have seen the edge: samples at T0 + j * loop_time for j < n are not after it
        dl = state['delta'].e
        diffs.append(z3.And(step >= 1, (step - 1) * lt_ > dl)); names.append('a skipped sample lies after the next edge')
        # the counter does not reach the value that ends the loop
        if acc.inc:
            diffs.append(z3.And(step >= 1, c1 > 255)); names.append('counter wraps')
            diffs.append(z3.And(step >= 1, c1 == 0)); names.append('counter reaches 0')
        else:
            diffs.append(z3.And(step >= 1, c1 < 1)); names.append('counter reaches 0')
        # flags: those of the last INC/DEC executed (reference: the tracer-independent formula of the Z80 manual)
        v = c1
        if acc.inc:
            fexp = (v & 0xA8) | z3.If(v == 0, z3.BitVecVal(0x40, W), z3.BitVecVal(0, W)) | z3.If((v & 15) == 0, z3.BitVecVal(0x10, W), z3.BitVecVal(0, W)) | z3.If(v == 0x80, z3.BitVecVal(4, W), z3.BitVecVal(0, W))
        else:
            fexp = (v & 0xA8) | z3.If(v == 0, z3.BitVecVal(0x40, W), z3.BitVecVal(0, W)) | z3.If((v & 15) == 15, z3.BitVecVal(0x10, W), z3.BitVecVal(0, W)) | z3.If(v == 0x7F, z3.BitVecVal(4, W), z3.BitVecVal(0, W)) | 2
        diffs.append(z3.And(step >= 1, (F1 & 0xFE) != fexp)); names.append('flags are not those of the last INC/DEC of the counter')
        # the value returned: EAR bit per the edge index after the fast-forward (index advances iff the clock passed the edge)
        idx = state['idx'].e
        idx1 = z3.If(z3.And(step >= 1, T1 > edge), idx + 1, idx)
        want = z3.If((idx1 & 1) == 0, z3.BitVecVal(191, W), z3.BitVecVal(255, W))
        diffs.append(bv(out) != want); names.append('port value does not match the edge index after the fast-forward')
        r, mod, which = p.check_any(diffs, names)
        if r == 'unknown':
            res['inconclusive'].append(name); return
        if r == 'sat':
            res['violations'].append(dict(key='%s:%s' % (name, which[0][:50]), text='%s: %s with %r' % (name, '; '.join(which[:3]), case(mod)), case=case(mod)))
            return
        res['discharged'] += 1
        res['nontrivial'] += 1
        if not res['samples']:
            res['samples'].append({'item': name, 'loop_time': lt_, 'loop_r_inc': acc.loop_r_inc, 'verdict': 'unsat'})

    try:
        explore(fn, stats=st, on_path=on, max_paths=2000)
    except Inconclusive as e:
        res['inconclusive'].append('%s: %s' % (name, e))
    return finish(res, st)


def replay_ffwd(case):
    """concrete: the fast-forward against the real loop executed trip by trip on the real simulator with the same tape edge"""
    from skoolkit.loadsample import ACCELERATORS, BYTE, Accelerator
    import skoolkit.loadtracer as lt
    import skoolkit.simulator as sm
    acc = Accelerator(*ACCELERATORS[case['acc']])
    pc = BASE + acc.c0
    outs = []
    for accelerated in (True, False):
        memory = [0] * 65536
        for k, b in enumerate(acc.code):
            memory[BASE + k] = 0 if b is BYTE else b
        # a closing absolute jump targets the start of the signature; the stack returns into the loop start
        sim = sm.Simulator(memory, config={'frame_duration': 69888, 'int_active': 32})
        regs = sim.registers
        regs[25], regs[acc.counter], regs[15], regs[24], regs[26] = case['T'], case['counter'], case['R'], pc, 0
        if acc.ear_mask and acc.ear != acc.counter:
            regs[acc.ear] = case['ear']
        t = lt.LoadTracer.__new__(lt.LoadTracer)
        t.simulator = sim
        t.frame_duration = 69888
        t.in_min_addr = 0x4000
        t.state = [case['edge'], case['index'], 0, 1000, 1, 0, 0, 0, 0, 0]
        t.edges = None
        t.blocks = None
        t.block_index = 0
        t.max_index = 2000
        t.accelerators = [Accelerator(*ACCELERATORS[case['acc']])] if accelerated else []
        t.out7ffd = 0x10
        t.outfffd = 0
        t.ay = [0] * 16
        t.tsl_misses = 0
        t.list_accelerators = False
        v = t._read_port()(regs, 0x7FFE)
        outs.append((v, regs[25], regs[acc.counter], regs[15], t.state[1]))
    (va, Ta, ca, Ra, ia), (vn, Tn, cn, Rn, i_n) = outs
    n = (ca - cn) if acc.inc else (cn - ca)
    bad = []
    if n < 0 or Ta != Tn + n * acc.loop_time:
        bad.append('T %d after a counter change of %d (loop_time %d, T before %d)' % (Ta, n, acc.loop_time, Tn))
    if n >= 1 and Tn + (n - 1) * acc.loop_time > case['edge']:
        bad.append('skips a sample at %d, after the edge at %d' % (Tn + (n - 1) * acc.loop_time, case['edge']))
    if n >= 1 and (ca == 0 or ca > 255):
        bad.append('counter reaches %d' % ca)
    if Ra != (Rn & 0x80) | ((Rn + n * acc.loop_r_inc) & 0x7F):
        bad.append('R %d after %d trips from %d' % (Ra, n, Rn))
    idx1 = case['index'] + (1 if (n >= 1 and Ta > case['edge']) else 0)
    if va != (191 if idx1 % 2 == 0 else 255):
        bad.append('port value %d with edge index %d' % (va, idx1))
    return bool(bad), '; '.join(bad) or 'fast-forward is a whole number of safe trips'


def work(item):
    return {'dec_a': check_dec_a, 'dec_a_c': check_dec_a_c, 'loop': check_loop, 'ffwd': check_ffwd}[item[0]](item)


# ---------------------------------------------------------------------------
def replay_dec_a_c(case):
    """the Python LoadTracer and the compiled C loader (built from the current source) each execute the instruction at PC with
    both DEC A accelerations enabled, through the real LoadTracer.run; stop address = where the Python accelerator lands"""
    import contextlib
    import io
    import csim
    import skoolkit.loadtracer as lt
    import skoolkit.simulator as sm
    from skoolkit.tape import TapeBlock, TapeBlockTimings
    if 'regs' not in case:
        return False, 'no input'
    mem, default = simcheck.mem_from_case(case['mem'])
    regs = list(case['regs'])
    ext = csim.build_extension(False)
    # where does the Python accelerator land?
    probe = sm.Simulator(simcheck.mem_list(mem, default))
    probe.registers[:] = regs
    t = lt.LoadTracer.__new__(lt.LoadTracer)
    t.simulator = probe
    t.dec_a_jr_hits = t.dec_a_jp_hits = t.dec_a_misses = 0
    t.dec_a(1, 2)()
    stop = probe.registers[24]
    cfg = {'frame_duration': 69888, 'int_active': 32, 'fast_djnz': False, 'fast_ldir': False}
    results = []
    for cls in (sm.Simulator, ext.CSimulator):
        memory = simcheck.mem_list(mem, default)
        if cls is sm.Simulator:
            sim = cls(memory, None, None, cfg)
        else:
            sim = cls(bytearray(memory), None, None, cfg)
        for i, v in enumerate(regs):
            sim.registers[i] = v
        blocks = [TapeBlock(1, [0xFF, 0, 0xFF], TapeBlockTimings([(10, 2168)], (855, 855), (1710, 1710), 0))]
        for b in blocks:
            b.keys = None
        config = dict(first_edge=0, polarity=0, pause=1, in_min_addr=0x8000, accelerators=set(), accelerate_dec_a=3, list_accelerators=False, stop=stop, fast_load=0,
                      finish_tape=0, timeout=regs[25] + 200000, tracefile=None, trace_line='', prefix='', byte_fmt='', word_fmt='')
        tracer = lt.LoadTracer(sim, blocks, config, None)
        sim.set_tracer(tracer, False, False) if hasattr(sim, 'set_tracer') else None
        with contextlib.redirect_stdout(io.StringIO()):
            tracer.run(0, 0, 0, [0] * 16, 0)
        results.append(list(sim.registers))
    if regs[26] and False:
        pass
    bad = ['%s: Python %d, C %d' % (sh.REG_NAMES[i], results[0][i], results[1][i]) for i in range(29) if results[0][i] != results[1][i]]
    return bool(bad), ('LoadTracer.run over the instruction at %d: ' % regs[24]) + ('; '.join(bad) if bad else 'identical')


def replay(case):
    if case['kind'] == 'dec_a':
        import skoolkit.loadtracer as lt
        import skoolkit.simulator as sm
        if 'regs' not in case:
            return False, 'no input'
        mem, default = simcheck.mem_from_case(case['mem'])
        outs = []
        for fast in (True, False):
            memory = simcheck.mem_list(mem, default)
            sim = sm.Simulator(memory)
            sim.registers[:] = list(case['regs'])
            if fast:
                t = lt.LoadTracer.__new__(lt.LoadTracer)
                t.simulator = sim
                t.dec_a_jr_hits = t.dec_a_jp_hits = t.dec_a_misses = 0
                t.dec_a(case['loop'] == 'jr', case['loop'] == 'jp')()
            else:
                pc = case['regs'][24]
                for _ in range(600):
                    sim.opcodes[memory[sim.registers[24]]]()
                    if sim.registers[24] != pc and sim.registers[24] != (pc + 1) % 65536:
                        break
            outs.append((list(sim.registers), memory))
        bad = [sh.REG_NAMES[i] for i in range(30) if outs[0][0][i] != outs[1][0][i]]
        if outs[0][1] != outs[1][1]:
            bad.append('memory')
        return bool(bad), 'accelerated vs real loop differ in %s' % bad if bad else 'identical'
    if case['kind'] == 'dec_a_c':
        return replay_dec_a_c(case)
    if case['kind'] == 'ffwd':
        return replay_ffwd(case)
    if case['kind'] == 'loop':
        # concrete trip round the loop on the real simulator
        from skoolkit.loadsample import ACCELERATORS, BYTE, Accelerator
        import skoolkit.simulator as sm
        acc = Accelerator(*ACCELERATORS[case['acc']])
        memory = [0] * 65536
        for k, b in enumerate(acc.code):
            memory[BASE + k] = 0 if b is BYTE else b
        memory[BASE + len(acc.code)] = BASE % 256
        memory[BASE + len(acc.code) + 1] = BASE // 256
        for ear in (0x00, 0xFF):
            for cnt in (5, 100):
                sim = sm.Simulator(list(memory))

                class Tr:
                    def read_port(self, registers, port):
                        return ear
                sim.set_tracer(Tr())
                sim.registers[24] = BASE + acc.c0
                sim.registers[acc.counter] = cnt
                if acc.ear_mask and acc.ear != acc.counter:
                    sim.registers[acc.ear] = ear
                t0, r0 = sim.registers[25], sim.registers[15]
                n = 0
                ok = False
                while n < 16:
                    pc = sim.registers[24]
                    if n and pc == BASE + acc.c0:
                        ok = True
                        break
                    if not BASE <= pc < BASE + len(acc.code) + 2:
                        break
                    sim.opcodes[sim.memory[pc]]()
                    n += 1
                if ok:
                    dt, dr = sim.registers[25] - t0, (sim.registers[15] - r0) % 128
                    dc = (sim.registers[acc.counter] - cnt) % 256
                    if dt != acc.loop_time or dr != acc.loop_r_inc % 128 or dc != (1 if acc.inc else 255):
                        return True, 'trip takes %d T (table %d), R+%d (table %d), counter %+d' % (dt, acc.loop_time, dr, acc.loop_r_inc, dc if dc < 128 else dc - 256)
        return False, 'table entry agrees with the executed loop on the inputs tried'
    return False, 'no replay'


def main():
    args = harness.parse_args(PROP)
    if args.replay:
        ok, detail = replay(harness.load_case(args.replay))
        print(('REPRODUCED: ' if ok else 'not reproduced: ') + detail)
        return 1 if ok else 0
    import csim
    csim.prepare(False)
    from skoolkit.loadsample import ACCELERATORS
    items = [('dec_a', 'jr'), ('dec_a', 'jp'), ('dec_a_c',)] + [('loop', k) for k in ACCELERATORS] + [('ffwd', k) for i, k in enumerate(ACCELERATORS) if args.tier == 'thorough' or i % 5 == 0]
    if args.only:
        items = [i for i in items if args.only in harness.item_name(i)]
    rep = harness.Report(
        PROP, args,
        functions=['skoolkit.loadtracer.LoadTracer.dec_a', 'c/csimulator.c dec_a (LLVM IR)', 'skoolkit.loadsample.ACCELERATORS (all %d signatures: code, loop_time, loop_r_inc, counter, inc)' % len(ACCELERATORS),
                   'skoolkit.simulator.Simulator closures executing the loop bodies'],
        bounds={'dec_a': 'inductive step over A from an arbitrary state (IFF = 0), JR and JP forms', 'loops': 'one trip round each sampling loop from an arbitrary state with no edge (the IN value is symbolic; paths that leave the loop are discarded)',
                'outside': 'the fast-forward count in _read_port (loops = min(...)), edge bookkeeping, whole-tape loads, fast_load vs the ROM routine, the C read_port/advance_tape, pause/first-edge options'},
        assumptions=['an absolute jump closing a sampling loop targets the first byte of the signature', 'the tape port value is a byte'],
        stubs=['LoadTracer built with __new__ and given the attributes dec_a uses', 'port tracer proxy returning a symbolic byte'],
        rule='one case per feasible path per accelerator / induction case',
        explanation='The accelerators are tied to the code they replace: dec_a by induction over A with the real instruction closures, each sampling-loop signature by symbolic execution of its own code for one iteration.')
    for r in harness.pmap(work, items, args.jobs, init=init_worker, seed=args.seed):
        rep.add(r)
    if rep.paths < rep.items:
        rep.vacuity.append('some work items explored no path')
    return rep.finish(replay_in_subprocess=os.path.abspath(__file__))


if __name__ == '__main__':
    sys.exit(main())
